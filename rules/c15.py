"""C15 - header field accessors (DESIGN.md C15), decided with E-BITS (vlib/bitprov.py).

Pairs are derived from the classes: `void f(T)` and `T' f() const` of the same name in one class.

 R0 small-uint     every small_uint<n> instantiation: max_value == 2^n - 1 and the converting constructor throws exactly
                   when the value exceeds it (premise of R2: a small_uint<n> parameter has only n significant bits).
 R1 inverse        getter(setter(o, v)) == v bit for bit, for every v the parameter type can hold and every prior state.
 R2 no-truncation  a parameter bit that does not reach the getter must be excluded by the parameter type
                   (small_uint<n>, bool, enum range); otherwise the setter truncates silently.
 R3 footprint      the setter changes only bits of the members its own getter reads (plus tabled derived members), and no
                   getter reading other bits changes its value.
"""
import collections

from vlib import facts, bitprov as bp

PID = "C15"

# setters that store through the option machinery: not header fields (C04 / C11 domain)
OPTION_ADDERS = ("add_option", "add_tagged_option", "add_integral_option", "internal_add_option")

# members a setter may write besides the ones its getter reads, with the reason
DERIVED = {
    ("Tins::IPv6", "next_header"): ({"next_header_"}, "private mirror of the field, consulted when extension headers are chained"),
    ("Tins::RTP", "padding_size"): ({"header_"}, "the P bit of the header is defined by the padding size (RFC 3550 5.1)"),
}
# getters a setter is allowed to change although they read other bits (derived fields)
DERIVED_GETTERS = {
    ("Tins::RTP", "padding_size"): {"padding_bit"},
}
# pairs the engine cannot decide, by name, with the reason (none on the pinned tree)
UNDECIDED_OK = {
}


def discover(db):
    by = collections.defaultdict(lambda: collections.defaultdict(list))
    for fid, f in db.functions.items():
        rec = f.get("rec")
        if not rec or not rec.startswith("Tins::") or f["kind"] != "method":
            continue
        if f["file"].startswith("<") or not (f["file"].startswith("include/") or f["file"].startswith("src/")):
            continue
        nm = f["qual"].split("::")[-1]
        if nm.startswith("operator") or nm.startswith("~"):
            continue
        by[(rec, nm)][len(f["params"])].append(f)
    pairs = []
    for (rec, nm), d in sorted(by.items()):
        if 0 in d and 1 in d:
            g = [x for x in d[0] if x["id"].endswith(" const")]
            s = [x for x in d[1] if not x["id"].endswith(" const") and (facts.tyi(x, x["ret"]) or {}).get("k") == "void"]
            if g and s:
                pairs.append((rec, nm, s[0], g[0]))
    return pairs


def param_setup(db, m, f):
    """(argument value, number of significant bits, declared bits, kind)"""
    p = f["params"][0]
    t = facts.tyi(f, p.get("t"))
    k = t.get("k")
    if k == "bool":
        return bp.BV([("p", 0)]), 1, 1, "bool"
    if k == "int":
        w = t["w"]
        return bp.BV([("p", i) for i in range(w)]), w, w, "int"
    if k == "enum":
        e = db.enums.get(t["name"])
        if not e or not e["enumerators"] or not t.get("w"):
            return None, None, None, None
        mx = max(x["v"] for x in e["enumerators"])
        mn = min(x["v"] for x in e["enumerators"])
        if mn < 0:
            return None, None, None, None
        w = max(1, mx.bit_length())
        return bp.BV([("p", i) for i in range(w)] + [0] * (t["w"] - w)), w, w, "enum"
    tt = t.get("to") if k == "ref" else t
    if isinstance(tt, dict) and tt.get("k") == "rec":
        name = tt["name"]
        size = tt.get("size") or (db.records.get(name) or {}).get("size")
        if name.startswith("Tins::small_uint<") and size:
            n = int(name.split("<")[1].rstrip(">").rstrip("UL"))
            r = m.new_region("P")
            m.store_bits(r, 0, [("p", i) if i < n else 0 for i in range(size * 8)])
            return bp.Loc(r, 0, tt), n, n, "small_uint"
        if (name in ("Tins::IPv4Address", "Tins::IPv6Address") or name.startswith("Tins::HWAddress<")) and size:
            r = m.new_region("P")
            m.defaults[r] = "p"
            return bp.Loc(r, 0, tt), size * 8, size * 8, "address"
    return None, None, None, None


def branching_pair(db, rec, s, g, w):
    from rules.c14 import _subst
    thist = {"k": "rec", "name": rec, "size": db.records[rec]["size"]}

    def run(setup):
        m = bp.Machine(db)
        setup(m)
        this = m.new_region("this")
        m.defaults[this] = "m"
        a, w_, decl, kind = param_setup(db, m, s)
        thisloc = bp.Loc(this, 0, thist)
        m.call(s, thisloc, [a])
        r = m.call(g, thisloc, [])
        return result_bits(m, r)
    try:
        paths = bp.explore_paths(run, max_paths=32)
    except bp.Unsupported as e:
        return ("unknown", str(e))
    n = 0
    for pc, bits in paths:
        if bits == "throw":
            continue
        n = max(n, len(bits))
    if n == 0:
        return ("bad", "the setter/getter pair throws on every path")
    try:
        for fill in (0, 1):
            for v in range(1 << w):
                def val(b, v=v, fill=fill):
                    return ((v >> b[1]) & 1) if b[0] == "p" else fill
                got = None
                for pc, bits in paths:
                    c = _subst(pc, val) if not isinstance(pc, int) else pc
                    if c not in (0, 1):
                        raise bp.Unsupported("path condition does not evaluate")
                    if not c:
                        continue
                    if bits == "throw":
                        got = "throw"
                        break
                    gv = 0
                    for i, b in enumerate(bits):
                        x = _subst(b, val) if not isinstance(b, int) else b
                        if x not in (0, 1):
                            raise bp.Unsupported("result bit does not evaluate")
                        gv |= x << i
                    got = gv
                    break
                if got == "throw":
                    continue        # a range check: its threshold is R2's business on the straight-line form
                if got != v:
                    return ("bad", "get(set(%d)) == %s: the value set is silently replaced by another one (the setter branches on the value)"
                            % (v, got))
    except bp.Unsupported as e:
        return ("unknown", str(e))
    return ("ok", "get(set(v)) == v for all %d values on every one of the %d paths" % (1 << w, len(paths)))


def result_bits(m, r):
    if isinstance(r, bp.Loc):
        w = bp.type_bits(r.t)
        if w is None:
            raise bp.Unsupported("getter returns an object of unknown size")
        return list(m.load_bits(r.region, r.off, w))
    if isinstance(r, bp.BV):
        return list(r.bits)
    raise bp.Unsupported("getter returns no value")


def members_of_bits(db, rec, bits):
    """names of the direct members of rec (or its bases) containing the given bits"""
    out = set()
    spans = []
    seen = set()
    work = [rec]
    while work:
        rn = work.pop()
        if rn in seen or rn not in db.records:
            continue
        seen.add(rn)
        r = db.records[rn]
        for fl in r.get("fields", []):
            spans.append((fl["off"], fl["off"] + fl["bits"], fl["name"]))
        work.extend(r.get("bases", []))
    for b in bits:
        for lo, hi, nm in spans:
            if lo <= b < hi:
                out.add(nm)
                break
        else:
            out.add("<byte %d>" % (b // 8))
    return out


def leaf_member(db, rec, bit):
    """innermost named field containing bit (for messages)"""
    r = db.records.get(rec)
    path = []
    off = 0
    while r is not None:
        nxt = None
        for fl in r.get("fields", []):
            if off + fl["off"] <= bit < off + fl["off"] + fl["bits"]:
                path.append(fl["name"])
                t = facts.tyi(r, fl["t"])
                if t and t.get("k") == "rec":
                    nxt = (db.records.get(t["name"]), off + fl["off"])
                break
        else:
            for b in r.get("bases", []):
                rb = db.records.get(b)
                if rb is not None:
                    nxt = (rb, off)
                    break
        if nxt is None or nxt[0] is None:
            break
        r, off = nxt
    return ".".join(path) or "?"


def run(db, rep, tier):
    rep.rule("R0-small-uint", "small_uint<n>: max_value == 2^n-1 and the constructor rejects larger values", 8)
    rep.rule("R1-inverse", "getter(setter(o,v)) == v bit for bit for every representable v and every prior state", 200)
    rep.rule("R2-no-truncation", "no parameter bit is dropped unless the parameter type excludes it", 200)
    rep.rule("R3-footprint", "a setter changes only its own field's members and no getter of other bits", 200)
    rep.rule("R5-endian-arms", "the little- and big-endian declarations of a packed header put every bit-field of the same name and width "
                               "on the same wire bits", 60)
    rep.rule("R4-serialiser-stores", "serialising assigns only the tabled derived fields (lengths, checksums, next-protocol tags ...): "
                                     "every other field keeps the value that was set", 25)
    rep.rule("R9-wide-address", "a setter template that accepts hardware addresses of any length writes only its own field even when the "
                                "address is longer than the field (BootP::chaddr with a 20-octet address)", 1)
    rep.rule("R8-derived-always", "length, header-length and checksum fields are (re)derived on every path through their serialiser", 15)
    rep.rule("R6-address-order", "IPv4/IPv6/hardware address setters store the octets in the order the address object holds them (network "
                                 "order): no byte swap between the address and the header", 10)
    rep.rule("R7-selector-accessors", "set_X(selector, v) / get_X(selector): for every enumerator the getter returns the value set, the other "
                                      "selectors keep theirs, and the whole-field getter shows the value at the enumerator's own bit", 8)
    small_uint(db, rep)
    pairs = discover(db)
    if len(pairs) < 300:
        rep.analysis_broken("only %d setter/getter pairs found (>= 300 expected)" % len(pairs))
    by_class = collections.defaultdict(list)
    for rec, nm, s, g in pairs:
        by_class[rec].append((nm, s, g))
    stats = collections.Counter()
    getter_cache = {}

    def base_getter(rec, nm, g):
        """bits of getter g on the untouched object (or None)"""
        key = g["id"]
        if key not in getter_cache:
            m = bp.Machine(db)
            this = m.new_region("this")
            m.defaults[this] = "m"
            try:
                r = m.call(g, bp.Loc(this, 0, {"k": "rec", "name": rec, "size": db.records[rec]["size"]}), [])
                getter_cache[key] = tuple(result_bits(m, r))
            except (bp.Unsupported, bp.Throw):
                getter_cache[key] = None
        return getter_cache[key]

    for rec, nm, s, g in pairs:
        key = "%s::%s" % (rec.replace("Tins::", ""), nm)
        site = facts.loc(s)
        m = bp.Machine(db)
        this = m.new_region("this")
        m.defaults[this] = "m"
        a, w, decl, kind = param_setup(db, m, s)
        if a is None:
            stats["non-scalar parameter (record/container/string/pointer): not a scalar header field"] += 1
            continue
        thisloc = bp.Loc(this, 0, {"k": "rec", "name": rec, "size": db.records[rec]["size"]})
        optish = any(n.get("cname") in OPTION_ADDERS for n in facts.fn_nodes(s) if n["k"] in ("CallExpr", "CXXMemberCallExpr"))
        try:
            m.call(s, thisloc, [a])
            pre_assumed = list(m.assumed)
            m.assumed = []
            post = dict(m.regions[this])
            r = m.call(g, thisloc, [])
            bits = result_bits(m, r)
            getter_assumed = list(m.assumed)
        except bp.Unsupported as e:
            if optish:
                stats["option-backed accessor (stored through add_option; C04/C11 domain)"] += 1
                continue
            if key in UNDECIDED_OK:
                rep.undecided("R1-inverse", key, site, UNDECIDED_OK[key])
                continue
            if "branch on a value" in str(e) and w <= 12:
                # a setter (or getter) that BRANCHES on the value: every path is enumerated and get(set(v)) is evaluated for
                # every one of the 2^w argument values (object bits outside the field taken as 0 and as 1)
                verdict = branching_pair(db, rec, s, g, w)
                if verdict[0] == "ok":
                    stats["header-field pairs decided"] += 1
                    rep.ok("R1-inverse", key, site, verdict[1])
                    rep.ok("R2-no-truncation", key, site, verdict[1])
                    continue
                if verdict[0] == "bad":
                    stats["header-field pairs decided"] += 1
                    rep.violation("R1-inverse", key, site, verdict[1])
                    continue
            rep.analysis_broken("%s: accessor outside the E-BITS language: %s" % (key, e))
            continue
        except bp.Throw:
            rep.violation("R1-inverse", key, site, "the setter/getter pair throws for every value")
            continue
        if optish:
            stats["option-backed accessor (stored through add_option; C04/C11 domain)"] += 1
            continue
        stats["header-field pairs decided"] += 1
        # an explicit `if (v > K) throw` in the setter narrows the representable values
        # (or the same test from the other side: `if (v <= K) store; else throw`)
        NEGOP = {">": "<=", ">=": "<", "<=": ">", "<": ">="}
        for asm in pre_assumed:
            cmp_ = None
            if isinstance(asm, tuple) and asm[0] == "not" and isinstance(asm[1], tuple) and asm[1][:2] == ("x", "cmp"):
                cmp_ = (NEGOP.get(asm[1][2]), asm[1][3], asm[1][4])          # holds: NOT (lhs op rhs)
            elif isinstance(asm, tuple) and asm[:2] == ("x", "cmp"):
                cmp_ = (asm[2], asm[3], asm[4])                              # holds: lhs op rhs
            if cmp_ is not None and cmp_[0] in ("<=", "<"):
                op, lhs, rhs = cmp_
                kv = bp.BV(list(rhs)).value()
                if kv is not None and all(b == ("p", i) for i, b in enumerate(lhs[:w])) \
                        and all(b == 0 for b in lhs[w:]):
                    lim = kv if op == "<=" else kv - 1
                    if 0 <= lim and ((lim + 1) & lim) != 0 and lim.bit_length() <= w:
                        rep.violation("R2-no-truncation", key + ":threshold", site,
                                      "the range check accepts 0..%d: not a whole number of bits - values up to %d fit the field but are "
                                      "rejected (off-by-one threshold?)" % (lim, (1 << lim.bit_length()) - 1))
                    if 0 <= lim and lim.bit_length() < w:
                        w = lim.bit_length()
                        kind = "range-checked " + kind
        # ---- R1 / R2
        n = max(w, len(bits))
        got = [bits[i] if i < len(bits) else 0 for i in range(n)]
        exp = [("p", i) if i < w else 0 for i in range(n)]
        if got == exp:
            rep.ok("R1-inverse", key, site, "identity on all %d value bits (%s parameter)" % (w, kind))
            rep.ok("R2-no-truncation", key, site, "all %d representable bits are stored and returned" % w)
        elif any(bp.has_x(b) for b in got):
            if key in UNDECIDED_OK:
                rep.undecided("R1-inverse", key, site, UNDECIDED_OK[key])
            else:
                rep.analysis_broken("%s: composition leaves the exact domain (arithmetic on field bits)" % key)
        else:
            # truncation shape: low k bits right, the rest constant zero
            k = 0
            while k < n and got[k] == exp[k]:
                k += 1
            if k > 0 and all(b == 0 for b in got[k:]) and k < w:
                rep.ok("R1-inverse", key, site, "identity on the low %d bits" % k)
                pt = (facts.tyi(s, s["params"][0].get("t")) or {}).get("s")
                rep.violation("R2-no-truncation", key, site,
                              "%s(%s) keeps only %d of the %d value bits: larger values are silently truncated instead of rejected"
                              % (nm, pt, k, w))
            else:
                i = next(j for j in range(n) if got[j] != exp[j])
                rep.violation("R1-inverse", key, site, "bit %d of the value read back is %s, expected %s"
                              % (i, bp.bit_str(got[i]), bp.bit_str(exp[i])))
        if getter_assumed:
            rep.violation("R1-inverse", key + ":getter-total", facts.loc(g),
                          "the getter builds a range-checked value from bits that are not masked to its width: it can throw")
        # ---- R3 footprint
        changed = set(b for b, v in post.items() if isinstance(b, int) and v != ("m", b))
        own0 = base_getter(rec, nm, g)
        sup = set()
        if own0 is not None:
            for b in own0:
                bp.support(b, "m", sup)
        own_members = members_of_bits(db, rec, sup)
        extra_members, _why = DERIVED.get((rec, nm), (set(), ""))
        ch_members = members_of_bits(db, rec, changed)
        stray = ch_members - own_members - extra_members
        bad = None
        if own0 is None:
            bad = None      # getter not evaluable alone: R1 already handled it
        elif stray:
            b0 = min(b for b in changed if members_of_bits(db, rec, [b]) & stray)
            bad = "the setter also writes `%s` (byte %d), which its getter does not read" % (leaf_member(db, rec, b0), b0 // 8)
        # interference with getters of other bits
        n_cmp = 0
        if bad is None:
            allowed = DERIVED_GETTERS.get((rec, nm), set())
            for r2 in [rec] + list(db.all_bases(rec)):
                for nm2, s2, g2 in by_class.get(r2, []):
                    if g2 is g or nm2 in allowed:
                        continue
                    v0 = base_getter(r2, nm2, g2)
                    if v0 is None:
                        continue
                    sup2 = set()
                    for b in v0:
                        bp.support(b, "m", sup2)
                    if not sup2 or (sup2 & sup):
                        continue        # alias view of the same bits (union arm, whole-word accessor)
                    if not (sup2 & changed):
                        n_cmp += 1
                        continue
                    m2 = bp.Machine(db)
                    t2 = m2.new_region("this")
                    m2.defaults[t2] = "m"
                    m2.regions[t2] = dict(post)
                    try:
                        v1 = tuple(result_bits(m2, m2.call(g2, bp.Loc(t2, 0, thisloc.t), [])))
                    except (bp.Unsupported, bp.Throw):
                        continue
                    n_cmp += 1
                    if v1 != v0:
                        bad = "setting %s changes the value %s() returns" % (nm, nm2)
                        break
                if bad:
                    break
        if bad:
            rep.violation("R3-footprint", key, site, bad)
        else:
            rep.ok("R3-footprint", key, site, "writes %d bit(s) inside {%s}; %d other getters unaffected" %
                   (len(changed), ",".join(sorted(ch_members)) or "-", n_cmp))
        # ---- R6 address byte order: an address object holds its octets in wire order; the header must hold them in that order too
        if kind == "address":
            ref = [("p", i) for i in range(w)]
            pt_ = facts.tyi(s, s["params"][0].get("t")) or {}
            while pt_.get("k") == "ref" and pt_.get("to"):
                pt_ = pt_["to"]
            if pt_.get("name") == "Tins::IPv4Address":
                # IPv4Address keeps a host-order integer; its network-order image is what operator uint32_t() yields
                conv = [f_ for fid_, f_ in db.functions.items() if fid_.startswith("Tins::IPv4Address::operator unsigned int(") and f_.get("body")]
                ref = None
                if conv:
                    try:
                        m3 = bp.Machine(db)
                        r3 = m3.new_region("P", "p")
                        v3 = m3.call(conv[0], bp.Loc(r3, 0, pt_), [])
                        ref = list(v3.bits) if isinstance(v3, bp.BV) else None
                    except (bp.Unsupported, bp.Throw):
                        ref = None
                if ref is None:
                    rep.analysis_broken("%s: network-order image of IPv4Address not computable" % key)
            if ref is not None:
                starts = sorted(b for b, v in post.items() if isinstance(b, int) and v == ref[0])
                if starts:
                    stats["address-order checked"] += 1
                    base = starts[0]
                    wrong = [i for i in range(len(ref)) if post.get(base + i) != ref[i]]
                    if wrong:
                        i = wrong[0]
                        rep.violation("R6-address-order", key, site,
                                      "octet %d of the stored field is not octet %d of the address's network-order image (stored bit: %s): the "
                                      "setter applies a byte swap of its own, so the serialization carries the address with its octets reordered"
                                      % (i // 8, i // 8, bp.bit_str(post.get(base + i, 0))))
                    else:
                        rep.ok("R6-address-order", key, site, "the %d octets are stored as the address's network-order image" % (len(ref) // 8))
    serialiser_stores(db, rep)
    endian_arms(db, rep)
    selector_accessors(db, rep)
    wide_hw_setters(db, rep)
    rep.rule("R3-tags", "(C05.R3 mirror pairing, re-run here: a setter keeps the private mirror of its field in step, otherwise the value set is not the one "
                           "serialised)", 1)
    from rules import c05
    c05.r3_mirrors(db, rep)
    rep.extra["pairs"] = dict(stats)
    if stats.get("address-order checked", 0) < 10:
        rep.analysis_broken("only %d address-typed setters found for R6" % stats.get("address-order checked", 0))
    rep.extra["pairs_total"] = len(pairs)
    rep.explanation = ("E-BITS composes each scalar setter with its getter in a bit-provenance domain (masks, shifts, byte swaps, casts, "
                       "bit-field layout and copies are exact) and decides, for every value and every prior object state: the getter "
                       "returns the value set (R1), no value bit is dropped unless the parameter type excludes it (R2), and only the "
                       "field's own storage changes while getters of other bits keep their value (R3). Decided for the little-endian "
                       "arm compiled on this host. NOT decided: that the bit positions are the ones the protocol specification assigns; "
                       "the big-endian #if arms; option-backed accessors (C04/C11).")
    rep.assumptions += ["little-endian host arm (TINS_IS_LITTLE_ENDIAN) is the one analysed",
                        "records are laid out as clang's record layout for x86-64 reports them"]


def small_uint(db, rep):
    n_inst = 0
    for rn, r in sorted(db.records.items()):
        if not rn.startswith("Tins::small_uint<") or not rn.endswith(">") or "::" in rn[len("Tins::small_uint<"):]:
            continue
        n = int(rn.split("<")[1].rstrip(">").rstrip("UL"))
        n_inst += 1
        key = "small_uint<%d>" % n
        mv = [s for s in r.get("statics", []) if s["name"] == "max_value"]
        site = "%s:%s" % (r["file"], r["line"])
        if not mv or "v" not in mv[0]:
            rep.analysis_broken("%s::max_value has no constant value" % rn)
            continue
        if mv[0]["v"] != (1 << n) - 1:
            rep.violation("R0-small-uint", key, site, "max_value is %d, not 2^%d-1 = %d: values wider than the field are accepted"
                          % (mv[0]["v"], n, (1 << n) - 1))
            continue
        # the converting constructor: run it on an unconstrained value
        ctor = [f for fid, f in db.functions.items() if fid.startswith(rn + "::small_uint(") and len(f["params"]) == 1
                and (facts.tyi(f, f["params"][0].get("t")) or {}).get("k") == "int"]
        if not ctor:
            rep.analysis_broken("%s: converting constructor not found" % rn)
            continue
        f = ctor[0]
        w = facts.tyi(f, f["params"][0].get("t"))["w"]
        m = bp.Machine(db)
        obj = m.new_region("this")
        try:
            m.call(f, bp.Loc(obj, 0, {"k": "rec", "name": rn, "size": r["size"]}), [bp.BV([("p", i) for i in range(w)])])
        except (bp.Unsupported, bp.Throw) as e:
            rep.violation("R0-small-uint", key, facts.loc(f), "constructor is not `if (value > max_value) throw; store`: %s" % e)
            continue
        stored = m.load_bits(obj, 0, r["size"] * 8)
        want_cmp = ("not", ("x", "cmp", ">", tuple(bp.BV([("p", i) for i in range(w)]).cast(32, False).bits),
                            tuple(bp.BV.const((1 << n) - 1, 32).bits)))
        okc = False
        for a in m.assumed:
            if a == want_cmp:
                okc = True
            elif isinstance(a, tuple) and a[0] == "not" and isinstance(a[1], tuple) and a[1][:2] == ("x", "cmp"):
                op, lhs, rhs = a[1][2], a[1][3], a[1][4]
                kv = bp.BV(list(rhs)).value()
                lhs_is_param = all((b == ("p", i)) for i, b in enumerate(lhs[:w])) and all(b == 0 for b in lhs[w:])
                if lhs_is_param and kv is not None and ((op == ">" and kv == (1 << n) - 1) or (op == ">=" and kv == (1 << n))):
                    okc = True
        if n == w:
            okc = True      # every value of the representation type fits
        if not okc:
            rep.violation("R0-small-uint", key, facts.loc(f), "the constructor does not throw for every value above 2^%d-1" % n)
        elif stored[:w] != [("p", i) for i in range(w)]:
            rep.violation("R0-small-uint", key, facts.loc(f), "the constructor does not store the value it checked")
        else:
            rep.ok("R0-small-uint", key, facts.loc(f), "max_value=%d; constructor throws above it and stores the value" % mv[0]["v"])
    if n_inst < 8:
        rep.analysis_broken("only %d small_uint instantiations found" % n_inst)


# fields a serialiser (write_serialization and the members it calls on *this) may assign, with the kind that makes them
# derived; frozen from the pinned tree after reading each site.  Anything else that is assigned while serialising loses
# the value the user (or the parser) put there.
DERIVED_FIELDS = {
    ("Tins::Dot1Q", "header_.type"): "next-protocol tag",
    ("Tins::Dot3", "header_.length"): "length",
    ("Tins::EAPOL", "header_.length"): "length",
    ("Tins::EAPOL", "header_.key_length"): "length of the key data that follows (RC4EAPOL::write_body)",
    ("Tins::EAPOL", "header_.wpa_length"): "length of the key data that follows (RSNEAPOL::write_body)",
    ("Tins::EthernetII", "header_.payload_type"): "next-protocol tag",
    ("Tins::ICMP", "header_.check"): "checksum",
    ("Tins::ICMP", "header_.un.rfc4884.length"): "RFC 4884 length of the padded original datagram",
    ("Tins::ICMPv6", "header_.cksum"): "checksum",
    ("Tins::ICMPv6", "header_..rfc4884.length"): "RFC 4884 length",
    ("Tins::ICMPv6", "header_..mlrm2.record_count"): "MLDv2 record count = multicast_records_.size()",
    ("Tins::IP", "header_.check"): "checksum",
    ("Tins::IP", "header_.frag_off"): "restored to its saved value after a platform-specific byte swap",
    ("Tins::IP", "header_.ihl"): "header length",
    ("Tins::IP", "header_.protocol"): "next-protocol tag",
    ("Tins::IP", "header_.tot_len"): "length",
    ("Tins::IPSecAH", "header_.length"): "length",
    ("Tins::IPSecAH", "header_.next_header"): "next-protocol tag",
    ("Tins::IPv6", "header_.next_header"): "next-protocol tag / head of the extension chain",
    ("Tins::IPv6", "header_.payload_length"): "length",
    ("Tins::LLC", "header_.dsap"): "SAP pair 0x42/0x42 announcing an STP payload (next-protocol tag)",
    ("Tins::LLC", "header_.ssap"): "SAP pair 0x42/0x42 announcing an STP payload (next-protocol tag)",
    ("Tins::Loopback", "family_"): "next-protocol tag (address family of the payload)",
    ("Tins::MPLS", "header_.label_low_exp_and_bottom"): "bottom-of-stack bit derived from the inner layer",
    ("Tins::PPPoE", "header_.payload_length"): "length",
    ("Tins::RadioTap", "header_.it_len"): "length",
    ("Tins::SLL", "header_.protocol"): "next-protocol tag",
    ("Tins::SNAP", "snap_.eth_type"): "next-protocol tag",
    ("Tins::TCP", "header_.check"): "checksum",
    ("Tins::TCP", "header_.doff"): "data offset (header length)",
    ("Tins::UDP", "header_.check"): "checksum",
    ("Tins::UDP", "header_.len"): "length",
}


MUST_DERIVE = {
    # lengths, checksums and header-length fields that every serialisation recomputes whatever the packet's content
    ("Tins::Dot3", "header_.length"), ("Tins::EAPOL", "header_.length"), ("Tins::ICMP", "header_.check"),
    ("Tins::ICMPv6", "header_.cksum"), ("Tins::IP", "header_.check"), ("Tins::IP", "header_.ihl"), ("Tins::IP", "header_.tot_len"),
    ("Tins::IPSecAH", "header_.length"), ("Tins::IPv6", "header_.next_header"), ("Tins::IPv6", "header_.payload_length"),
    ("Tins::RadioTap", "header_.it_len"), ("Tins::TCP", "header_.check"), ("Tins::TCP", "header_.doff"),
    ("Tins::UDP", "header_.check"), ("Tins::UDP", "header_.len"),
}


def serialiser_stores(db, rep):
    from rules import c02, c05
    from vlib.facts import strip

    def stores_in(f, K, depth=0, seen=None):
        seen = seen if seen is not None else set()
        out = []
        if f["id"] in seen or depth > 4:
            return out
        seen.add(f["id"])
        for n in facts.fn_nodes(f):
            ms = c05.member_store(f, n)
            if ms:
                out.append((facts.expr_str(ms[2]).replace("this->", ""), f, n))
            if n["k"] == "CompoundAssignOperator" or (n["k"] == "UnaryOperator" and n.get("op") in ("++", "--")):
                lhs = strip(n["c"][0])
                if lhs["k"] == "MemberExpr" and lhs.get("isfield"):
                    b = lhs
                    while b["k"] == "MemberExpr" and b.get("c"):
                        b = strip(b["c"][0])
                    if b["k"] == "CXXThisExpr":
                        out.append((facts.expr_str(lhs).replace("this->", ""), f, n))
            if n["k"] == "CXXMemberCallExpr" and c05.strip_this(n):
                cal = n.get("callee")
                fs = db.functions.get(cal)
                if n.get("virt") and K and cal and "(" in cal:
                    ov = c02.final(db, K, n.get("cname"), cal[cal.index("("):])
                    if ov is not None:
                        fs = ov
                if fs is not None and fs.get("body") and not fs["id"].endswith(" const") and (fs.get("rec") or "").startswith("Tins::"):
                    out += stores_in(fs, K, depth + 1, seen)
        return out
    seen_keys = set()
    n_ser = 0
    for K in c02.concrete_classes(db):
        w = c02.final(db, K, "write_serialization", "(unsigned char *, unsigned int)")
        if w is None:
            continue
        n_ser += 1
        for fld, f, node in stores_in(w, K):
            # scalar header state only: container elements and caches are C02/C04's business
            root = fld.split(".")[0].split("[")[0]
            r = db.records.get(w["rec"]) or {}
            key = (w["rec"], fld)
            if key in seen_keys:
                continue
            seen_keys.add(key)
            okey = "%s:%s" % (w["rec"].split("::")[-1], fld)
            if key in DERIVED_FIELDS:
                rep.ok("R4-serialiser-stores", okey, facts.loc(f, node), "derived: %s" % DERIVED_FIELDS[key])
            else:
                rep.violation("R4-serialiser-stores", okey, facts.loc(f, node),
                              "%s assigns `%s` while serialising (in %s); it is not one of the fields libtins derives, so the value set through "
                              "the API - or parsed from the wire - is lost by serialize()" % (w["rec"].split("::")[-1], fld, f["qual"].split("::")[-1]))
    if n_ser < 50:
        rep.analysis_broken("only %d serialisers enumerated" % n_ser)
    # the other direction for lengths and checksums: they are (re)derived on EVERY path through the serialiser
    from vlib import cfg as _cfg
    nm = 0
    for (rec, fld) in sorted(MUST_DERIVE):
        for K in c02.concrete_classes(db):
            if K != rec and rec not in db.all_bases(K):
                continue
            w = c02.final(db, K, "write_serialization", "(unsigned char *, unsigned int)")
            if w is None:
                continue
            g = _cfg.FnCFG(w)
            pos = []
            for n in facts.fn_nodes(w):
                ms = c05.member_store(w, n)
                if ms and facts.expr_str(ms[2]).replace("this->", "") == fld:
                    pos.append(g.pos(n))
                if n["k"] == "CXXMemberCallExpr" and c05.strip_this(n):
                    fs = db.functions.get(n.get("callee"))
                    if fs is not None and fs.get("body"):
                        for x in facts.fn_nodes(fs):
                            m2 = c05.member_store(fs, x)
                            if m2 and facts.expr_str(m2[2]).replace("this->", "") == fld:
                                pos.append(g.pos(n))
            pos = [p for p in pos if p]
            okey = "%s:%s" % (K.split("::")[-1], fld)
            nm += 1
            if pos and g.reaches_exit_avoiding((g.entry, -1), pos, normal_only=True) is None:
                rep.ok("R8-derived-always", okey, facts.loc(w), "stored on every path through write_serialization")
            else:
                rep.violation("R8-derived-always", okey, facts.loc(w),
                              "`%s` (%s) is not stored on every path through %s::write_serialization: on some path the serialization carries "
                              "whatever the field held before" % (fld, DERIVED_FIELDS[(rec, fld)], K.split("::")[-1]))
            break
    if nm < 15:
        rep.analysis_broken("only %d must-derive fields checked" % nm)


BE_TU = """#include <endian.h>
#undef __BYTE_ORDER
#define __BYTE_ORDER __BIG_ENDIAN
#include <tins/tins.h>
#include <tins/dot11.h>
#include <tins/rtp.h>
#include <tins/mpls.h>
#include <tins/vxlan.h>
"""


def endian_arms(db, rep):
    """The header structs declare their bit-fields twice (#if TINS_IS_LITTLE_ENDIAN / #else).  The big-endian arm is parsed
    in a translation unit of its own (byte order macro overridden, declarations only) and its MSB-first allocation is
    simulated from the declaration order; the little-endian arm's positions come from clang's record layout.  Both are
    descriptions of one wire format: a field of the same name and width must occupy the same bits of the same byte."""
    try:
        be = facts.extract_standalone(db, "bigendian", BE_TU)
    except facts.AnalysisBroken as e:
        rep.analysis_broken("big-endian declarations cannot be parsed: %s" % str(e)[-300:])
        return

    def le_positions(fl):
        return [((fl["off"] + k) // 8, (fl["off"] + k) % 8) for k in range(fl["bitw"])]

    def be_layout(r):
        out = {}
        fields = r["fields"]
        i = 0
        while i < len(fields):
            fl = fields[i]
            if not fl.get("bitw"):
                i += 1
                continue
            U = fl["bits"]
            g, used, ustart = [], 0, None
            j = i
            while j < len(fields) and fields[j].get("bitw") and fields[j]["bits"] == U and used + fields[j]["bitw"] <= U:
                if ustart is None:
                    ustart = fields[j]["off"]
                g.append(fields[j])
                used += fields[j]["bitw"]
                j += 1
            p = 0
            for x in g:
                w = x["bitw"]
                out[x["name"]] = (w, [(ustart // 8 + (p + (w - 1 - k)) // 8, 7 - (p + (w - 1 - k)) % 8) for k in range(w)])
                p += w
            i = max(j, i + 1)
        return out
    n = 0
    for rn, r in sorted(db.records.items()):
        if not rn.startswith("Tins::") or rn not in be.records:
            continue
        rb = be.records[rn]
        if not any(f.get("bitw") for f in r["fields"]):
            continue
        if [(f["name"], f["off"], f.get("bitw")) for f in r["fields"]] == [(f["name"], f["off"], f.get("bitw")) for f in rb["fields"]]:
            continue        # declared once, no endian arms
        bl = be_layout(rb)
        for f in r["fields"]:
            if not f.get("bitw") or not f["name"]:
                continue
            got = bl.get(f["name"])
            if got is None or got[0] != f["bitw"]:
                continue    # split differently in the two arms (idL/idH vs id): handled by arm-specific accessor code
            n += 1
            key = "%s.%s" % (rn.replace("Tins::", ""), f["name"])
            lp = le_positions(f)
            site = "%s:%s" % (r["file"], f.get("l", r["line"]))
            if lp == got[1]:
                rep.ok("R5-endian-arms", key, site, "byte %d, bits %s in both arms" % (lp[0][0], sorted(set(b for _, b in lp))))
            else:
                rep.violation("R5-endian-arms", key, site,
                              "the little-endian declaration puts `%s` at byte %d bit(s) %s, the big-endian declaration at byte %d bit(s) %s: the two arms "
                              "describe different wire formats, one of them is not the protocol's"
                              % (f["name"], lp[0][0], sorted(set(b for _, b in lp)), got[1][0][0], sorted(set(b for _, b in got[1]))))
    if n < 60:
        rep.analysis_broken("only %d bit-fields with two endian declarations compared" % n)


def selector_accessors(db, rep):
    """accessors that take the field as an enumerator: TCP::set_flag(Flags, v) / get_flag(Flags) / flags()"""
    n = 0
    for fid, s in sorted(db.functions.items()):
        nm = s.get("qual", "").split("::")[-1]
        if not nm.startswith("set_") or not s.get("body") or len(s["params"]) != 2 or not (s.get("rec") or "").startswith("Tins::"):
            continue
        et = facts.tyi(s, s["params"][0].get("t")) or {}
        if et.get("k") != "enum":
            continue
        rec = s["rec"]
        base = nm[4:]
        gs = [g for g in db.fns_named(rec + "::get_" + base) if g.get("body") and len(g["params"]) == 1]
        ws = [g for g in db.fns_named(rec + "::" + base + "s") if g.get("body") and not g["params"]]
        en = db.enums.get(et.get("name"))
        if not gs or en is None:
            continue
        g = gs[0]
        vt = facts.tyi(s, s["params"][1].get("t")) or {}
        for e in en["enumerators"]:
            key = "%s::set_%s(%s)" % (rec.replace("Tins::", ""), base, e["name"])
            site = facts.loc(s)
            n += 1
            try:
                m = bp.Machine(db)
                this = m.new_region("this", "m")
                thisloc = bp.Loc(this, 0, {"k": "rec", "name": rec, "size": db.records[rec]["size"]})
                a, w, decl, kind = param_setup(db, m, dict(s, params=[s["params"][1]]))
                if a is None:
                    raise bp.Unsupported("value parameter type")
                sel = bp.BV.const(e["v"], et.get("w") or 32)
                before = {}
                for e2 in en["enumerators"]:
                    before[e2["name"]] = tuple(result_bits(m, m.call(g, thisloc, [bp.BV.const(e2["v"], et.get("w") or 32)])))
                m.call(s, thisloc, [sel, a])
                got = result_bits(m, m.call(g, thisloc, [sel]))
                bad = None
                exp = [("p", i) if i < w else 0 for i in range(len(got))]
                if list(got) != exp:
                    i = next(j for j in range(len(got)) if got[j] != exp[j])
                    bad = "get_%s(%s) after set_%s(%s, v): bit %d is %s, expected %s" % (base, e["name"], base, e["name"], i, bp.bit_str(got[i]), bp.bit_str(exp[i]))
                if bad is None:
                    for e2 in en["enumerators"]:
                        if e2["v"] == e["v"]:
                            continue
                        after = tuple(result_bits(m, m.call(g, thisloc, [bp.BV.const(e2["v"], et.get("w") or 32)])))
                        if after != before[e2["name"]]:
                            bad = "set_%s(%s, v) changes what get_%s(%s) returns" % (base, e["name"], base, e2["name"])
                            break
                if bad is None and ws and w == 1 and e["v"] > 0 and (e["v"] & (e["v"] - 1)) == 0:
                    whole = result_bits(m, m.call(ws[0], thisloc, []))
                    b = e["v"].bit_length() - 1
                    if b < len(whole) and whole[b] != ("p", 0):
                        bad = ("after set_%s(%s, v) bit %d of %ss() - the bit the enumerator's value %d names - is %s, not v" %
                               (base, e["name"], b, base, e["v"], bp.bit_str(whole[b])))
                    elif any(isinstance(x, tuple) and x[0] == "p" for i, x in enumerate(whole) if i != b):
                        bad = "after set_%s(%s, v) the value also shows in other bits of %ss()" % (base, e["name"], base)
            except bp.Unsupported as ex:
                rep.analysis_broken("%s: outside the E-BITS language: %s" % (key, ex))
                continue
            except bp.Throw:
                bad = "the accessor throws for this enumerator"
            if bad:
                rep.violation("R7-selector-accessors", key, site, bad)
            else:
                rep.ok("R7-selector-accessors", key, site, "value returned, other selectors unchanged%s" % (", shown at its own bit of the whole field" if ws else ""))
    if n < 8:
        rep.analysis_broken("only %d selector accessor instances found (TCP::set_flag expected)" % n)


WIDE_TU = """#include <tins/tins.h>
template void Tins::BootP::chaddr<20>(const Tins::HWAddress<20>&);
"""


def wide_hw_setters(db, rep):
    try:
        d2 = facts.extract_standalone(db, "c15wide", WIDE_TU)
    except facts.AnalysisBroken as e:
        rep.analysis_broken("BootP::chaddr<20> does not instantiate: %s" % str(e)[:200])
        return
    fs = [f for fid, f in d2.functions.items() if fid.startswith("Tins::BootP::chaddr<20") and f.get("body")]
    key = "BootP::chaddr<20>"
    if not fs:
        rep.analysis_broken("BootP::chaddr<20> not found in the synthetic TU")
        return
    s_ = fs[0]
    rec = "Tins::BootP"
    try:
        m = bp.Machine(d2)
        this = m.new_region("this", "m")
        thisloc = bp.Loc(this, 0, {"k": "rec", "name": rec, "size": d2.records[rec]["size"]})
        r = m.new_region("P", "p")
        pt = facts.tyi(s_, s_["params"][0].get("t"))
        while pt.get("k") == "ref" and pt.get("to"):
            pt = pt["to"]
        m.call(s_, thisloc, [bp.Loc(r, 0, pt)])
        post = dict(m.regions[this])
    except (bp.Unsupported, bp.Throw) as e:
        rep.analysis_broken("%s: outside the E-BITS language: %s" % (key, e))
        return
    changed = set(b for b, v in post.items() if isinstance(b, int) and v != ("m", b))
    mem = members_of_bits(d2, rec, changed)
    leafs = set(leaf_member(d2, rec, b) for b in changed)
    stray = sorted(x for x in leafs if "chaddr" not in x)
    if stray:
        rep.violation("R9-wide-address", key, facts.loc(s_),
                      "with a 20-octet address the setter also writes %s: octets beyond the 16-octet field spill into the members that follow"
                      % stray[:3])
    else:
        rep.ok("R9-wide-address", key, facts.loc(s_), "writes %d bits, all inside chaddr" % len(changed))
