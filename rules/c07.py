"""C07 - stream follower (DESIGN.md C07).  Decided clauses:

 R1 key        StreamIdentifier's < and == compare all four members pairwise; the constructor normalises address
               and port together.
 R2 announce   the only insertion into the stream table is followed on every path by the new-connection callback
               (or the callback_not_set error).
 R3 terminate  every termination callback is followed by the erase of that stream; erases are control-dependent on
               `finished or limits exceeded` / on the keep-alive comparison; the iterator is not used after erase.
 R4 limits     every packet that reaches a stream passes the chunk/byte limit comparison afterwards.
 R5 direction  a segment goes to the flow whose destination address (per family) AND port match.
 R6 formulas   finished <=> (client RST or server RST) or (client FIN and server FIN); create <=> (SYN and not ACK) or
               (attach and data); terminate <=> chunks > max or bytes > max; a flow's state becomes FIN_SENT on FIN and
               RST_SENT on RST whatever else the segment carries.
Not decided: equality of the callback trace with a reference connection table.
"""
from vlib import facts, cfg, cond, formula
from vlib.facts import strip

PID = "C07"
SF = "Tins::TCPIP::StreamFollower"
ST = "Tins::TCPIP::Stream"
FL = "Tins::TCPIP::Flow"
SID = "Tins::TCPIP::StreamIdentifier"
MEMBERS = ["min_address", "max_address", "min_address_port", "max_address_port"]


def fn(db, idprefix):
    fs = [f for fid, f in db.functions.items() if fid.startswith(idprefix)]
    if not fs:
        raise facts.AnalysisBroken("%s vanished" % idprefix)
    return fs[0]


def run(db, rep, tier):
    rep.rule("R1-key", "connection key ordering/equality cover the whole 4-tuple; endpoints normalised together", 3)
    rep.rule("R2-announce", "new stream inserted => new-connection callback (or callback_not_set) on every path", 1)
    rep.rule("R3-terminate", "termination callback => erase; erase only when finished/limits/timeout; no iterator use after erase", 4)
    rep.rule("R4-limits", "limits are compared after every packet handed to a stream", 1)
    rep.rule("R5-direction", "segments are routed by destination address and port", 3)
    rep.rule("R6-formulas", "finished / create / terminate / flow-state conditions equal the formulas of the statement", 4)
    r1(db, rep)
    pp = fn(db, SF + "::process_packet(Tins::PDU &, const std::chrono")
    r2(db, rep, pp)
    r3(db, rep, pp)
    r4(db, rep, pp)
    r5(db, rep)
    r6(db, rep, pp)
    rep.rule("R7-state-always", "a flow updates its connection state from EVERY TCP segment: update_state() is not guarded by anything but the "
                                "presence of a TCP layer (ignoring a direction's data must not hide its SYN / FIN / RST)", 1)
    r6_state(db, rep)
    rep.rule("R8-sweep", "every TCP packet - whatever it does to its own stream - reaches the keep-alive test that times out OTHER idle "
                         "streams: no normal path from the stream look-up to the end of process_packet avoids it", 1)
    r8_sweep(db, rep, pp)
    rep.rule("R9-family-siblings", "the IPv4 and the IPv6 branch of the flow extractors build their Flow from the same address / port / "
                                   "sequence-number accessors", 2)
    r9_siblings(db, rep)
    rep.explanation = ("Decides the structural clauses of C07 by path rules on the clang CFG and by truth tables compared with "
                       "the formulas the property text fixes (flow states and flags are touched only through ==/has_flags, so "
                       "the tables are complete). The equality of the callback trace with a reference connection table over "
                       "arbitrary interleavings is not decided.")
    rep.assumptions += ["user callbacks do not re-enter the follower"]


def r8_sweep(db, rep, pp):
    g = cfg.FnCFG(pp)
    finds = [n for n in facts.fn_nodes(pp) if n["k"] == "CXXMemberCallExpr" and n.get("cname") == "find" and
             "streams_" in facts.expr_str(cfg.receiver(n))]
    if not finds:
        rep.analysis_broken("process_packet: the stream look-up (streams_.find) was not found")
        return
    tests = []
    for b in g.blocks.values():
        c = g.idx.get(b.get("cond")) if b.get("cond") is not None else None
        if c is not None and "last_cleanup_" in facts.deep_text(db, pp, c):
            tests.append(g.pos(c))
    # ... or calls of a member that makes the test / the sweep itself (`cleanup_if_due(ts)`)
    sweepers = set()
    for h in db.functions.values():
        if h.get("rec") == pp.get("rec") and h.get("body") and h is not pp:
            if h["qual"].endswith("::cleanup_streams") or any(
                    x["k"] == "CXXMemberCallExpr" and x.get("cname") == "cleanup_streams" for x in facts.fn_nodes(h)):
                sweepers.add(h["id"])
    tests += [g.pos(n) for n in facts.fn_nodes(pp) if n["k"] == "CXXMemberCallExpr" and n.get("callee") in sweepers]
    tests = [t for t in tests if t]
    key = "process_packet:sweep"
    if not tests:
        rep.violation("R8-sweep", key, facts.loc(pp), "process_packet never tests the keep-alive deadline: idle streams are never timed out")
        return
    # the sweep erases streams: it must not run between the look-up and the last use of the iterator it returned
    itv = None
    idx_, par_ = facts.index_fn(pp)
    p_ = par_.get(finds[0]["id"])
    while p_ is not None and p_["k"] not in ("VarDecl", "BinaryOperator", "CXXOperatorCallExpr", "CompoundStmt"):
        p_ = par_.get(p_["id"])
    if p_ is not None and p_["k"] == "VarDecl":
        itv = p_["var"]
    elif p_ is not None and p_["k"] in ("BinaryOperator", "CXXOperatorCallExpr") and p_.get("op") == "=":
        itv = facts.strip_all(p_["c"][0] if p_["k"] == "BinaryOperator" else p_["c"][1]).get("var")
    sweeps = [n for n in facts.fn_nodes(pp) if n["k"] == "CXXMemberCallExpr" and
              (n.get("cname") == "cleanup_streams" or n.get("callee") in sweepers) and g.pos(n)]
    if itv is not None:
        uses = [n for n in facts.fn_nodes(pp) if n["k"] == "DeclRefExpr" and n.get("var") == itv and g.pos(n)]
        for t_ in sweeps:
            if not g.reachable(g.pos(finds[0]), g.pos(t_)):
                continue
            late = [u for u in uses if g.reachable(g.pos(t_), g.pos(u)) and not g.reachable(g.pos(u), g.pos(t_))]
            if late:
                rep.violation("R8-sweep", "process_packet:sweep-before-use", facts.loc(pp, t_),
                              "the keep-alive sweep (which erases streams) runs between the stream look-up and a later use of the iterator "
                              "`%s` (line %s): the packet's own stream, if idle for the keep-alive, is reported as TIMEOUT and erased before "
                              "the packet refreshes it, and the iterator dangles" % (facts.expr_str(late[0]), late[0].get("l")))
                return
        rep.ok("R8-sweep", "process_packet:sweep-before-use", facts.loc(pp, finds[0]), "no sweep between the look-up and the uses of its iterator")
    w = g.reaches_exit_avoiding(g.pos(finds[0]), tests, normal_only=True)
    if w is None:
        rep.ok("R8-sweep", key, facts.loc(pp, finds[0]), "every normal path from the look-up passes one of the %d keep-alive tests" % len(tests))
    else:
        rets = [n for n in facts.fn_nodes(pp) if n["k"] == "ReturnStmt" and g.pos(n) and g.pos(n)[0] in w]
        rep.violation("R8-sweep", key, facts.loc(pp, rets[0] if rets else finds[0]),
                      "a path from the stream look-up leaves process_packet without testing the keep-alive deadline (through the return at "
                      "line %s): when the packet that makes the sweep due takes that path, idle connections are not timed out then, and an "
                      "idle connection whose next segment arrives first is revived instead of being reported as TIMEOUT"
                      % (rets[0].get("l") if rets else "?"))


def r9_siblings(db, rep):
    import re
    n = 0
    for nm in ("extract_client_flow", "extract_server_flow"):
        fs = [f for fid, f in db.functions.items() if fid.startswith("Tins::TCPIP::Stream::%s(" % nm) and f.get("body")]
        if not fs:
            continue
        f = fs[0]
        locals_ = dict((x["var"], x.get("name")) for x in facts.fn_nodes(f) if x["k"] == "VarDecl" and x.get("name"))
        forms = []
        for r in facts.fn_nodes(f):
            if r["k"] != "ReturnStmt" or not r.get("c"):
                continue
            for x in facts.walk(r):
                if x["k"] in ("CXXConstructExpr", "CXXTemporaryObjectExpr") and (x.get("crec") or "").endswith("::Flow") and len(x.get("c", [])) >= 3:
                    args = []
                    for a in x["c"]:
                        t = facts.expr_str(a)
                        # the address-family object is a local of its own in each branch: its name does not matter
                        for v, name in locals_.items():
                            if name and any(y["k"] == "DeclRefExpr" and y.get("var") == v for y in facts.walk(a)) and \
                                    "IP" in ((facts.tyi(f, next(z for z in facts.fn_nodes(f) if z["k"] == "VarDecl" and z.get("var") == v).get("t")) or {}).get("s") or ""):
                                t = re.sub(r"\b%s\b" % re.escape(name), "$ip", t)
                        args.append(t)
                    forms.append((tuple(args), r))
                    break
        n += 1
        key = "Stream::%s" % nm
        if len(forms) < 2:
            rep.ok("R9-family-siblings", key, facts.loc(f), "one Flow construction serves both address families")
            continue
        ref = forms[0][0]
        bad = [(a, r) for a, r in forms[1:] if a != ref]
        if bad:
            k_ = next(i for i in range(min(len(ref), len(bad[0][0]))) if ref[i] != bad[0][0][i]) if len(ref) == len(bad[0][0]) else 0
            rep.violation("R9-family-siblings", key, facts.loc(f, bad[0][1]),
                          "%s builds the flow from (%s) for one address family and from (%s) for the other: argument %d differs, so connections "
                          "of one family start from another sequence number / endpoint than their twins" %
                          (nm, ", ".join(ref), ", ".join(bad[0][0]), k_ + 1))
        else:
            rep.ok("R9-family-siblings", key, facts.loc(f), "%d branches build Flow(%s)" % (len(forms), ", ".join(ref)))
    if n < 2:
        rep.analysis_broken("Stream::extract_client_flow / extract_server_flow not found (%d)" % n)


# ---------------------------------------------------------------------------
def tie_members(f, e, which):
    """member names listed in a std::tie(...) call; which = 'this' | 'rhs'"""
    out = []
    for x in facts.walk(e):
        if x["k"] == "CallExpr" and x.get("cname") == "tie":
            names = []
            for a in x["c"][1:]:
                a0 = strip(a)
                if a0["k"] == "MemberExpr" and a0.get("isfield"):
                    b = strip(a0["c"][0]) if a0.get("c") else None
                    side = "this" if (b is None or b["k"] == "CXXThisExpr") else "rhs"
                    names.append((side, a0["member"]))
            out.append(names)
    return out


def r1(db, rep):
    for opname in ("operator<", "operator=="):
        f = fn(db, SID + "::" + opname + "(")
        ties = tie_members(f, f["body"], None)
        key = opname
        if len(ties) != 2:
            # comparison not written with std::tie: the operator is EXECUTED on all pairs of keys over a two-valued domain per
            # member (16 x 16 pairs) and must be a strict weak order whose equivalence is equality of all four members
            # (operator<), resp. exactly that equality (operator==)
            import itertools
            from vlib import ieval
            rhs = f["params"][0]["var"]
            keys = list(itertools.product((1, 2), repeat=len(MEMBERS)))
            res = {}
            try:
                for a_ in keys:
                    for b_ in keys:
                        L, R = dict(zip(MEMBERS, a_)), dict(zip(MEMBERS, b_))

                        def tf(e, env, L=L, R=R):
                            e0 = e
                            if e0["k"] == "MemberExpr" and e0.get("member") in L and e0.get("c"):
                                b0 = facts.strip_all(e0["c"][0])
                                if b0["k"] == "CXXThisExpr":
                                    return L[e0["member"]]
                                if b0["k"] == "DeclRefExpr" and b0.get("var") == rhs:
                                    return R[e0["member"]]
                            if e0["k"] == "CXXOperatorCallExpr" and e0.get("op") in ("<", ">", "<=", ">=", "==", "!=") and len(e0["c"]) == 3:
                                x, y = ieval.ev(f, e0["c"][1], env), ieval.ev(f, e0["c"][2], env)
                                return int({"<": x < y, ">": x > y, "<=": x <= y, ">=": x >= y, "==": x == y, "!=": x != y}[e0["op"]])
                            return None
                        v = ieval.run_body(f, f["body"], {"__termfn2__": tf})
                        if v is None:
                            raise ieval.Unknown("no value returned")
                        res[(a_, b_)] = bool(v)
            except ieval.Unknown as ex:
                rep.undecided("R1-key", key, facts.loc(f), "comparison outside the finite evaluator: %s" % ex)
                continue
            bad = None
            for a_ in keys:
                for b_ in keys:
                    if opname == "operator==":
                        if res[(a_, b_)] != (a_ == b_):
                            bad = "%s(%s, %s) is %s" % (opname, a_, b_, res[(a_, b_)])
                    else:
                        if a_ == b_ and res[(a_, b_)]:
                            bad = "a key is less than itself"
                        if res[(a_, b_)] and res[(b_, a_)]:
                            bad = "%s < %s and %s < %s" % (a_, b_, b_, a_)
                        if a_ != b_ and not res[(a_, b_)] and not res[(b_, a_)]:
                            bad = "the different keys %s and %s are equivalent (neither is less): two connections share one map entry" % (a_, b_)
            if not bad and opname == "operator<":
                for a_ in keys:
                    for b_ in keys:
                        if res[(a_, b_)]:
                            for c_ in keys:
                                if res[(b_, c_)] and not res[(a_, c_)]:
                                    bad = "not transitive on %s, %s, %s" % (a_, b_, c_)
            if bad:
                rep.violation("R1-key", key, facts.loc(f), "%s over (%s): %s" % (opname, ", ".join(MEMBERS), bad))
            else:
                rep.ok("R1-key", key, facts.loc(f), "executed on all %d pairs of keys: %s" % (
                    len(res), "equality of all four members" if opname == "operator==" else "strict total order on the four members"))
            continue
        a, b = ties
        sa = [m for s, m in a]
        sb = [m for s, m in b]
        sides_ok = set(s for s, m in a) != set(s for s, m in b) or True
        if sorted(sa) != sorted(MEMBERS) or sorted(sb) != sorted(MEMBERS):
            rep.violation("R1-key", key, facts.loc(f), "%s ignores %s: two different connections compare equal/unordered" %
                          (opname, sorted(set(MEMBERS) - set(sa)) or sorted(set(MEMBERS) - set(sb))))
        elif sa != sb:
            rep.violation("R1-key", key, facts.loc(f), "%s compares members in different positions: %s vs %s" % (opname, sa, sb))
        elif set(s for s, m in a) == set(s for s, m in b):
            rep.violation("R1-key", key, facts.loc(f), "%s compares the object with itself" % opname)
        else:
            rep.ok("R1-key", key, facts.loc(f), "all four members, pairwise, against rhs")
    ctor = fn(db, SID + "::StreamIdentifier(const std::array")
    # the constructor is EXECUTED for every ordering of the two endpoints (addresses <, =, > ; ports <, =, >): afterwards
    # the (address, port) pairs are the two endpoints given, unbroken, with (min_address, min_port) <= (max_address,
    # max_port) lexicographically - whatever if / else / swap structure achieves it
    from vlib import ieval
    mem = {"min_address": "min_address", "max_address": "max_address", "min_address_port": "min_address_port", "max_address_port": "max_address_port"}
    bad = None
    n_cases = 0
    try:
        for ca in (1, 2):
            for sa_ in (1, 2):
                for cp in (1, 2):
                    for sp_ in (1, 2):
                        n_cases += 1
                        state = {"min_address": ca, "max_address": sa_, "min_address_port": cp, "max_address_port": sp_}

                        def member_of(e):
                            e0 = facts.strip_all(e)
                            while e0["k"] in ("CXXConstructExpr", "MaterializeTemporaryExpr") and len(e0.get("c", [])) == 1:
                                e0 = facts.strip_all(e0["c"][0])
                            if e0["k"] == "MemberExpr" and e0.get("member") in state and strip(e0["c"][0])["k"] == "CXXThisExpr":
                                return e0["member"]
                            return None

                        def tf(e, env):
                            m_ = member_of(e) if e["k"] in ("MemberExpr", "ImplicitCastExpr") else None
                            if m_ is not None:
                                return state[m_]
                            if e["k"] == "CXXOperatorCallExpr" and e.get("op") in ("<", ">", "<=", ">=", "==", "!=") and len(e["c"]) == 3:
                                x, y = ieval.ev(ctor, e["c"][1], env), ieval.ev(ctor, e["c"][2], env)
                                return int({"<": x < y, ">": x > y, "<=": x <= y, ">=": x >= y, "==": x == y, "!=": x != y}[e["op"]])
                            return None

                        def on_effect(kind, node, st):
                            for c_ in facts.walk(node):
                                if c_["k"] == "CallExpr" and c_.get("cname") == "swap" and len(c_["c"]) == 3:
                                    x, y = member_of(c_["c"][1]), member_of(c_["c"][2])
                                    if x is None or y is None:
                                        raise ieval.Unknown("swap of something else than two key members")
                                    state[x], state[y] = state[y], state[x]
                                    return
                        ieval.trace(ctor, ctor["body"], {"__termfn2__": tf}, on_effect=on_effect)
                        lo, hi = (state["min_address"], state["min_address_port"]), (state["max_address"], state["max_address_port"])
                        if sorted([lo, hi]) != sorted([(ca, cp), (sa_, sp_)]):
                            bad = bad or ("for endpoints %s and %s the key holds %s and %s: address and port of one endpoint are torn apart"
                                          % ((ca, cp), (sa_, sp_), lo, hi))
                        elif lo > hi:
                            bad = bad or ("for endpoints %s and %s the key keeps the order %s, %s: the two directions of one connection "
                                          "get different keys" % ((ca, cp), (sa_, sp_), lo, hi))
    except ieval.Unknown as ex:
        rep.analysis_broken("StreamIdentifier constructor outside the finite evaluator: %s" % ex)
        bad = False
    if bad:
        rep.violation("R1-key", "constructor:normalise", facts.loc(ctor),
                      "the two directions of a connection do not normalise to one key (%s)" % bad)
    elif bad is None:
        rep.ok("R1-key", "constructor:normalise", facts.loc(ctor), "executed for all %d orderings of the endpoints: pairs kept, smaller endpoint first" % n_cases)


def creation_site(db, pp):
    """(function that contains the insertion into streams_, the insertion, the node of process_packet at which it happens:
    the insertion itself or the call of the member it was moved to)"""
    def ins_of(h):
        return [n for n in facts.fn_nodes(h) if n["k"] == "CXXMemberCallExpr" and n.get("cname") in ("insert", "emplace") and
                "streams_" in facts.expr_str(cfg.receiver(n))]
    own = ins_of(pp)
    if own:
        return pp, own, own[0]
    for c in facts.fn_nodes(pp):
        if c["k"] == "CXXMemberCallExpr" and c.get("callee"):
            h = db.fn(c["callee"])
            if h is not None and h.get("body") and h.get("rec") == pp.get("rec") and h is not pp and ins_of(h):
                return h, ins_of(h), c
    return pp, [], None


def r2(db, rep, pp):
    pp, ins, _site = creation_site(db, pp)
    g = cfg.FnCFG(pp)
    if len(ins) != 1:
        rep.violation("R2-announce", "process_packet:insert", facts.loc(pp), "expected exactly one insertion into streams_, found %d" % len(ins))
        return
    cbs = [n for n in facts.fn_nodes(pp) if n["k"] == "CXXOperatorCallExpr" and n.get("op") == "()" and
           "on_new_connection_" in facts.expr_str(n["c"][1])]
    pos = [g.pos(c) for c in cbs if g.pos(c)]
    w = g.reaches_exit_avoiding(g.pos(ins[0]), pos, normal_only=True)
    # also: nothing else happens to the stream before the announcement except callback setup
    if cbs and w is None:
        rep.ok("R2-announce", "process_packet:insert", facts.loc(pp, ins[0]),
               "every normal path from the insertion passes on_new_connection_(...); the only other exit throws callback_not_set")
    else:
        rep.violation("R2-announce", "process_packet:insert", facts.loc(pp, ins[0]),
                      "a newly tracked connection can go unannounced (path avoiding the new-connection callback)")


def r3(db, rep, pp):
    for f, tag in ((pp, "process_packet"), (fn(db, SF + "::cleanup_streams("), "cleanup_streams")):
        g = cfg.FnCFG(f)
        cbs = [n for n in facts.fn_nodes(f) if n["k"] == "CXXOperatorCallExpr" and n.get("op") == "()" and
               "on_stream_termination_" in facts.expr_str(n["c"][1])]
        ers = [n for n in facts.fn_nodes(f) if n["k"] == "CXXMemberCallExpr" and n.get("cname") == "erase" and
               "streams_" in facts.expr_str(cfg.receiver(n))]
        for i, c in enumerate(cbs):
            epos = [g.pos(e) for e in ers if g.pos(e)]
            # from the callback, every path to exit / back to the callback passes an erase
            w = g.reaches_exit_avoiding(g.pos(c), epos, normal_only=True)
            again = any(g.reachable(g.pos(c), g.pos(c2)) and not any(g.reachable(g.pos(c), p) and g.reachable(p, g.pos(c2)) for p in epos)
                        for c2 in cbs if c2 is not c)
            key = "%s:callback-then-erase#%d" % (tag, i)
            if w is None and not again:
                rep.ok("R3-terminate", key, facts.loc(f, c), "termination callback is followed by the erase of the stream on every path")
            else:
                rep.violation("R3-terminate", key, facts.loc(f, c), "a stream can be reported as terminated and stay tracked (it would be reported again)")
        for i, e in enumerate(ers):
            gf = cond.guards_facts(g, g.pos(e))
            key = "%s:erase-condition#%d" % (tag, i)
            txt = " ".join(facts.expr_str(l) + " " + facts.expr_str(rr or {}) for op, l, rr in gf)
            if tag == "process_packet":
                # reachable exactly when is_finished() or the limit test holds, whatever else is tested on the way
                # every bool local that feeds the terminate decision is a termination reason too (buffer limits, SACK limit)
                tnames = set(["terminate_stream"])
                grow = True
                while grow:
                    grow = False
                    for d_ in facts.fn_nodes(f):
                        if d_["k"] == "VarDecl" and d_.get("name") in tnames and d_.get("c"):
                            for x_ in facts.walk(d_["c"][0]):
                                if x_["k"] == "DeclRefExpr" and x_.get("var") and not x_.get("parm") and \
                                        (facts.ty(f, x_) or {}).get("k") == "bool" and x_.get("name") not in tnames:
                                    tnames.add(x_["name"])
                                    grow = True
                roles = {"fin": lambda a: "is_finished" in a,
                         "term": lambda a, tnames=tnames: "max_buffered" in a or any(t_ in a for t_ in tnames)}
                atoms, table = formula.reach_table(f, g.pos(e), lambda a: any(p_(a) for p_ in roles.values()))
                good, why = formula.compare(atoms, table, roles, lambda en: en["fin"] or en["term"])
                why = "erase reachable iff is_finished() or over the limits: " + why
            else:
                # reachability of the erase as a function of the keep-alive comparison alone (however the loop is spelled)
                atoms, table = formula.reach_table(f, g.pos(e), lambda a: "last_seen" in a and "stream_keep_alive_" in a)
                good, why = False, "erase does not depend on the keep-alive comparison"
                if len(atoms) == 1 and " < " in atoms[0]:
                    idle_when = "last_seen" in atoms[0].split(" < ")[0]      # `last+keep < now` (True = idle) or `now < last+keep` (False = idle)
                    good = table[(idle_when,)] and not table[(not idle_when,)]
                    why = "erase reachable exactly when `%s` is %s" % (atoms[0][:60], idle_when) if good else \
                        "erase reachable for a stream that has not been idle for the keep-alive time (`%s`)" % atoms[0][:60]
            if good:
                rep.ok("R3-terminate", key, facts.loc(f, e), why)
            else:
                rep.violation("R3-terminate", key, facts.loc(f, e), "a stream is forgotten on a path that is not `finished / over the limits / idle too long` (%s)" % why)
            # iterator not used after erase: from the erase, no read of the iterator is reached before it is re-assigned
            arg = strip(cfg.args(e)[0]) if cfg.args(e) else None
            var = None
            for x in facts.walk(arg) if arg else []:
                if x["k"] == "DeclRefExpr" and "iterator" in (facts.ty(f, x) or {}).get("s", ""):
                    var = x.get("var")
            postinc = arg is not None and any(x["k"] in ("UnaryOperator", "CXXOperatorCallExpr") and x.get("op") == "++" for x in facts.walk(arg))
            used_after = False
            if var and not postinc:
                writes, lhs_ids = [], set()
                for x in facts.fn_nodes(f):
                    l = None
                    if x["k"] == "BinaryOperator" and x.get("op") == "=":
                        l = strip(x["c"][0])
                    elif x["k"] == "CXXOperatorCallExpr" and x.get("op") == "=" and len(x["c"]) >= 3:
                        l = strip(x["c"][1])
                    if l is not None and l["k"] == "DeclRefExpr" and l.get("var") == var:
                        writes.append(g.pos(x))
                        lhs_ids.add(l["id"])
                reads = [g.pos(x) for x in facts.fn_nodes(f) if x["k"] == "DeclRefExpr" and x.get("var") == var and x["id"] not in lhs_ids]
                used_after = g.first_hit(g.pos(e), [p_ for p_ in reads if p_], [p_ for p_ in writes if p_]) is not None
            key2 = "%s:no-use-after-erase#%d" % (tag, i)
            if used_after:
                rep.violation("R3-terminate", key2, facts.loc(f, e), "the erased iterator `%s` is used afterwards" % var.split("#")[0])
            else:
                rep.ok("R3-terminate", key2, facts.loc(f, e), "iterator %s" % ("advanced before the erase (erase(it++))" if postinc else "not used after the erase"))


def enclosing_if(f, node):
    idx, parent = facts.index_fn(f)
    cur = node
    while cur is not None:
        p = parent.get(cur["id"])
        if p is not None and p["k"] == "IfStmt":
            return p
        cur = p
    return None


def r4(db, rep, pp):
    g = cfg.FnCFG(pp)
    calls = [n for n in facts.fn_nodes(pp) if n["k"] == "CXXMemberCallExpr" and n.get("cname") == "process_packet" and
             strip(cfg.receiver(n)).get("name") == "stream"]
    decl = [n for n in facts.fn_nodes(pp) if n["k"] == "VarDecl" and n.get("name") == "terminate_stream"]
    if len(calls) != 1 or not decl:
        rep.violation("R4-limits", "process_packet", facts.loc(pp), "cannot find the stream hand-over / the limit comparison")
        return
    w = g.reaches_exit_avoiding(g.pos(calls[0]), [g.pos(decl[0])], normal_only=True)
    users = [n for n in facts.fn_nodes(pp) if n["k"] == "IfStmt" and "terminate_stream" in facts.expr_str(n["c"][0] if n["c"][0] is not None else n["c"][1])
             and any(x["k"] == "CXXMemberCallExpr" and x.get("cname") == "erase" for x in facts.walk(n))]
    if w is None and users:
        rep.ok("R4-limits", "process_packet", facts.loc(pp, decl[0]), "every path from stream.process_packet() computes the limit test, and the erase decision reads it")
    else:
        rep.violation("R4-limits", "process_packet", facts.loc(pp, calls[0]), "a packet can be handed to a stream without the buffered-data limits being checked afterwards")


def r5(db, rep):
    sp = fn(db, ST + "::process_packet(Tins::PDU &, const std::chrono")
    g = cfg.FnCFG(sp)
    for side in ("client_flow_", "server_flow_"):
        procs = [n for n in facts.fn_nodes(sp) if n["k"] == "CXXMemberCallExpr" and n.get("cname") == "process_packet" and
                 side in facts.expr_str(cfg.receiver(n))]
        key = "Stream::process_packet:%s" % side
        if not procs:
            # the hand-over through a selected pointer: `Flow* f = 0; if (A.belongs) f = &A; else if (B.belongs) f = &B; if (f) f->process_packet()`
            # - the selection of this side (f = &side) is the site that must be dominated by the side's own test; the
            # pointer starts null and the call is made only when it is non-null
            for n in facts.fn_nodes(sp):
                if n["k"] == "BinaryOperator" and n.get("op") == "=" and strip(n["c"][0])["k"] == "DeclRefExpr":
                    r0 = facts.strip_all(n["c"][1])
                    if r0["k"] == "UnaryOperator" and r0.get("op") == "&" and side in facts.expr_str(r0["c"][0]):
                        pv = strip(n["c"][0])["var"]
                        decl = [d for d in facts.fn_nodes(sp) if d["k"] == "VarDecl" and d.get("var") == pv]
                        null0 = bool(decl) and decl[0].get("c") and facts.cval(decl[0]["c"][0]) == 0
                        calls = [c for c in facts.fn_nodes(sp) if c["k"] == "CXXMemberCallExpr" and c.get("cname") == "process_packet" and
                                 facts.strip_all(cfg.receiver(c)).get("var") == pv]
                        guarded = calls and all(any(op_ == "true" and facts.strip_all(l_).get("var") == pv for op_, l_, r_ in cond.guards_facts(g, g.pos(c)))
                                                for c in calls)
                        if null0 and guarded:
                            procs.append(n)
        if len(procs) != 1:
            rep.violation("R5-direction", key, facts.loc(sp), "expected one hand-over to %s" % side)
            continue
        gf = cond.guards_facts(g, g.pos(procs[0]))
        ok = any(op == "true" and "packet_belongs" in facts.expr_str(l) and side in facts.expr_str(l) for op, l, rr in gf)
        if ok:
            rep.ok("R5-direction", key, facts.loc(sp, procs[0]), "dominated by %s.packet_belongs(packet)" % side)
        else:
            rep.violation("R5-direction", key, facts.loc(sp, procs[0]), "segment handed to %s without its packet_belongs() test" % side)
    pb = fn(db, FL + "::packet_belongs(")
    atoms, table = formula.truth_table(pb)
    txt = " ".join(atoms)
    need = {"v6 address": "dst_addr_v6()", "v4 address": "dst_addr_v4()", "port": "dport()"}
    miss = [k for k, v in need.items() if v not in txt]
    if miss:
        rep.violation("R5-direction", "Flow::packet_belongs", facts.loc(pb),
                      "packet_belongs() does not compare the %s: segments of the other direction (or of another host) are "
                      "attributed to this flow" % ", ".join(miss))
    else:
        # with the right family and equal address and port it must accept; a differing address or port must reject
        bad = None
        for vals, res in table.items():
            env = dict(zip(atoms, vals))
            v6 = env.get("is_v6()")
            def val(sub):
                for a, v in env.items():
                    if sub in a:
                        return a, v
                return None, None
            ka, va = val("dst_addr_v6()" if v6 else "dst_addr_v4()")
            kp, vp = val("dport()")
            # atom keys are equalities "x == y"
            addr_eq = va if "==" in (ka or "") else None
            port_eq = vp
            ipnull = [v for a, v in env.items() if a in ("ip",)]
            if addr_eq is False and res is True:
                bad = (env, "accepted although the destination address differs")
            if port_eq is False and res is True:
                bad = (env, "accepted although the destination port differs")
        if bad:
            rep.violation("R5-direction", "Flow::packet_belongs", facts.loc(pb), "%s: %s" % (bad[1], bad[0]))
        else:
            rep.ok("R5-direction", "Flow::packet_belongs", facts.loc(pb), "accepts only with matching destination address (per family) and port (%d rows)" % len(table))


def r6(db, rep, pp):
    # finished
    isf = fn(db, ST + "::is_finished(")
    atoms, table = formula.truth_table(isf, prep=formula.reader(db, isf))       # named bools / state locals read through
    roles = {"cR": lambda a: "client_" in a and "RST_SENT" in a, "sR": lambda a: "server_" in a and "RST_SENT" in a,
             "cF": lambda a: "client_" in a and "FIN_SENT" in a, "sF": lambda a: "server_" in a and "FIN_SENT" in a}
    ok, msg = formula.compare(atoms, table, roles, lambda e: (e["cR"] or e["sR"]) or (e["cF"] and e["sF"]))
    (rep.ok if ok else rep.violation)("R6-formulas", "Stream::is_finished", facts.loc(isf),
                                      ("finished <=> (cRST or sRST) or (cFIN and sFIN): " + msg) if ok else
                                      "Stream::is_finished() is not `either side RST, or both sides FIN`: " + msg)
    # creation
    _h, _ins, site_ = creation_site(db, pp)
    ins = [site_] if site_ is not None else []
    if ins:
        iff = ins[0]
        roles = {"syn": lambda a: "SYN" in a, "ack": lambda a: "ACK" in a, "attach": lambda a: "attach_to_flows_" in a,
                 "data": lambda a: "RawPDU" in a or "find_pdu" in a}
        # under which values of these four conditions can the insertion be reached at all (every other test left open)?
        # - the same table whether the code nests the creation in an `if`, returns early under the negated test, ...
        g_ = cfg.FnCFG(pp)
        atoms, table = formula.reach_table(pp, g_.pos(ins[0]), lambda a: any(p_(a) for p_ in roles.values()))
        # the data atom is `find_pdu<RawPDU>() == 0`-shaped: find its polarity from the key text
        def want(e):
            data = e["data"]
            return (e["syn"] and not e["ack"]) or (e["attach"] and data)
        # normalise polarity of the data atom: key "0 == ...find_pdu..." means "no data"
        dkey = [a for a in atoms if "RawPDU" in a or "find_pdu" in a]
        if dkey and ("== 0" in dkey[0] or dkey[0].startswith("0 ==")):
            want = lambda e: (e["syn"] and not e["ack"]) or (e["attach"] and not e["data"])
        ok, msg = formula.compare(atoms, table, roles, want)
        (rep.ok if ok else rep.violation)("R6-formulas", "process_packet:create", facts.loc(pp, iff),
                                          ("create <=> (SYN and not ACK) or (attach and data): " + msg) if ok else
                                          "a connection is created under a condition other than `initial SYN, or data when attaching is enabled`: " + msg)
    # limit test
    decl = [n for n in facts.fn_nodes(pp) if n["k"] == "VarDecl" and n.get("name") == "terminate_stream"]
    if decl and decl[0].get("c"):
        atoms, table = formula.expr_table(pp, decl[0]["c"][0])
        roles = {"chunks": lambda a: "total_chunks" in a and "max_buffered_chunks_" in a,
                 "bytes": lambda a: "total_buffered_bytes" in a and "max_buffered_bytes_" in a}
        # atoms are "max < total" (strict) by normalisation; a non-strict comparison normalises to "total < max" negated
        strict = all(a.startswith("max_buffered") for a in atoms if "max_buffered" in a)
        # other termination reasons may be OR-ed in (a SACK limit): whenever a buffer limit is exceeded the result is true,
        # and with every other condition false the result is exactly `chunks or bytes`
        role_of = dict((a, r_) for a in atoms for r_, p_ in roles.items() if p_(a))
        miss = [r_ for r_ in roles if r_ not in role_of.values()]
        ok, msg = (not miss), ("does not test %s (conditions found: %s)" % (miss, atoms) if miss else "%d rows agree" % len(table))
        if ok:
            for vals, res in table.items():
                env_ = dict((role_of[a], v) for a, v in zip(atoms, vals) if a in role_of)
                others = [v for a, v in zip(atoms, vals) if a not in role_of]
                want_ = env_["chunks"] or env_["bytes"]
                if (want_ and not res) or (not any(others) and res != want_):
                    ok, msg = False, "under %s it yields %s, the statement requires %s" % (dict(zip(atoms, vals)), res, want_)
                    break
        if ok and strict:
            rep.ok("R6-formulas", "process_packet:limits", facts.loc(pp, decl[0]), "terminate <=> chunks > max or bytes > max (strict): " + msg)
        else:
            rep.violation("R6-formulas", "process_packet:limits", facts.loc(pp, decl[0]),
                          "limit test is not `more chunks than the maximum or more bytes than the maximum`: %s%s" %
                          (msg, "" if strict else " (comparison is not strict `>`)"))
    # flow state machine: FIN -> FIN_SENT, RST (without FIN) -> RST_SENT, regardless of anything else
    us = fn(db, FL + "::update_state(")

    def eff(n):
        if n["k"] == "BinaryOperator" and n["op"] == "=" and facts.expr_str(n["c"][0]) == "state_":
            return facts.expr_str(n["c"][1])
        return None
    atoms, table = formula.truth_table(us, effects=eff)
    fin = [a for a in atoms if "FIN" in a]
    rst = [a for a in atoms if "RST" in a]
    bad = None
    if not fin or not rst:
        bad = "update_state() does not test FIN / RST"
    else:
        for vals, (res, effs) in table.items():
            env = dict(zip(atoms, vals))
            if env[fin[0]] and (not effs or effs[-1] != "FIN_SENT"):
                bad = "a segment with FIN leaves the flow in %s under %s" % (effs[-1] if effs else "its old state", env)
            if not env[fin[0]] and env[rst[0]] and (not effs or effs[-1] != "RST_SENT"):
                bad = "a segment with RST leaves the flow in %s under %s" % (effs[-1] if effs else "its old state", env)
    if bad:
        rep.violation("R6-formulas", "Flow::update_state", facts.loc(us), bad + ": the connection is then not forgotten when a side resets/closes")
    else:
        rep.ok("R6-formulas", "Flow::update_state", facts.loc(us), "FIN => FIN_SENT and RST => RST_SENT on all %d rows, whatever the handshake state / other flags" % len(table))


def r6_state(db, rep):
    from vlib import cond
    fs = [f for f in db.fns_named("Tins::TCPIP::Flow::process_packet") if f.get("body")]
    if not fs:
        rep.analysis_broken("Flow::process_packet vanished")
        return
    f = fs[0]
    g = cfg.FnCFG(f)
    calls = [x for x in facts.fn_nodes(f) if x["k"] == "CXXMemberCallExpr" and x.get("cname") == "update_state"]
    key = "Flow::process_packet:update_state"
    if len(calls) != 1:
        rep.violation("R7-state-always", key, facts.loc(f), "expected exactly one update_state() call, found %d" % len(calls))
        return
    tcpv = None
    for a in facts.walk(calls[0]["c"][1]):
        if a["k"] == "DeclRefExpr" and a.get("var"):
            tcpv = a["var"]
    bad = None
    for op, l, r in cond.guards_facts(g, g.pos(calls[0])):
        names = [y.get("var") for y in facts.walk(l) if y["k"] == "DeclRefExpr"] + ([y.get("var") for y in facts.walk(r) if y["k"] == "DeclRefExpr"] if r is not None else [])
        if names and all(nv == tcpv for nv in names) and not any(y["k"] == "MemberExpr" for y in facts.walk(l)):
            continue
        bad = "%s %s %s" % (facts.expr_str(l), op, facts.expr_str(r) if r is not None else "")
    if bad:
        rep.violation("R7-state-always", key, facts.loc(f, calls[0]),
                      "update_state() is only reached when `%s`: segments filtered out before it can carry SYN, FIN or RST, so the connection is "
                      "never seen to open or close" % bad)
    else:
        rep.ok("R7-state-always", key, facts.loc(f, calls[0]), "guarded only by the presence of the TCP layer")
