"""Shared rule: the two cursor classes every parser and serialiser relies on keep their own invariant.

   Memory::InputMemoryStream / OutputMemoryStream hold (buffer_, size_) with size_ = bytes left behind buffer_.
   R-a  skip(n): buffer_ += n and size_ -= n for the same n on the same paths, under a guard n <= size_
   R-b  can_read(n) is exactly size_ >= n
   R-c  every method that touches the bytes behind buffer_ (memcpy / memset / read_value / write_value / read_data /
        write_data with buffer_ as the buffer argument) does so for N bytes under a guard size_ >= N (or can_read(N)),
        and is followed on every path by skip(N) of the same N
   E-BOUNDS (C01) and E-STREAMFX (C02) take these for granted; this rule decides them."""
from vlib import facts, cfg, cond
from vlib.facts import strip

CLASSES = ("Tins::Memory::InputMemoryStream", "Tins::Memory::OutputMemoryStream")
RAW = ("memcpy", "memset", "memmove", "read_value", "write_value", "read_data", "write_data")


def this_field(n, name):
    n = strip(n)
    return n["k"] == "MemberExpr" and n.get("isfield") and n.get("member") == name and n.get("c") and strip(n["c"][0])["k"] == "CXXThisExpr"


def amount(f, call):
    """(text, constant) of the byte count a raw access moves"""
    cn = call.get("cname")
    args = call["c"][1:]
    if cn in ("memcpy", "memset", "memmove") and len(args) == 3:
        return facts.expr_str(args[2]), facts.cval(args[2])
    if cn in ("read_data", "write_data") and len(args) == 3:
        return facts.expr_str(args[2]), facts.cval(args[2])
    if cn in ("read_value", "write_value") and len(args) == 2:
        t = facts.ty(f, args[1]) or {}
        while t.get("k") == "ref" and t.get("to"):
            t = t["to"]
        sz = t.get("size") or ((t.get("w") or 0) // 8) or None
        if sz is None and t.get("k") == "arr" and t.get("n") and (t.get("to") or {}).get("w"):
            sz = t["n"] * t["to"]["w"] // 8
        return "sizeof(%s)" % facts.expr_str(args[1]), sz
    return None, None


def same_amount(f, e, txt, const):
    if const is not None and facts.cval(e) == const:
        return True
    t = facts.expr_str(e)
    return t == txt or t.replace("sizeof=", "") == str(const)


def check(db, rep, rule, minimum=20):
    n = 0
    for cls in CLASSES:
        short = cls.split("::")[-1]
        ms = [f for f in db.functions.values() if f.get("rec") == cls and f.get("body") and f.get("kind") not in ("ctor", "dtor")]
        if not ms:
            rep.analysis_broken("%s has no analysable methods" % cls)
            continue
        seen = {}
        for f in sorted(ms, key=lambda x: x["id"]):
            nm = f["qual"].split("::")[-1]
            g = cfg.FnCFG(f)
            # R-b
            if nm == "can_read":
                n += 1
                key = "%s::can_read" % short
                rets = [x for x in facts.fn_nodes(f) if x["k"] == "ReturnStmt" and x.get("c")]
                ok = False
                if len(rets) == 1:
                    e = strip(rets[0]["c"][0])
                    while e["k"] == "CallExpr" and e.get("cname") == "__builtin_expect":
                        e = strip(e["c"][1])
                    while e["k"] in ("ImplicitCastExpr", "CStyleCastExpr", "ParenExpr") or (e["k"] == "UnaryOperator" and e.get("op") == "!" and
                                                                                          strip(e["c"][0])["k"] == "UnaryOperator" and strip(e["c"][0]).get("op") == "!"):
                        e = strip(strip(e["c"][0])["c"][0]) if e["k"] == "UnaryOperator" else strip(e["c"][0])
                    if e["k"] == "BinaryOperator":
                        l, r = e["c"]
                        pv = f["params"][0]["var"]
                        if e["op"] == ">=" and this_field(l, "size_") and facts.strip_all(r).get("var") == pv:
                            ok = True
                        if e["op"] == "<=" and this_field(r, "size_") and facts.strip_all(l).get("var") == pv:
                            ok = True
                (rep.ok if ok else rep.violation)(rule, key, facts.loc(f), "size_ >= byte_count" if ok else
                                                 "can_read(n) is not `size_ >= n`: every parser's bound check rests on it")
                continue
            # R-a
            adv = [x for x in facts.fn_nodes(f) if x["k"] == "CompoundAssignOperator" and x.get("op") == "+=" and this_field(x["c"][0], "buffer_")]
            dec = [x for x in facts.fn_nodes(f) if x["k"] == "CompoundAssignOperator" and x.get("op") == "-=" and this_field(x["c"][0], "size_")]
            if adv or dec:
                n += 1
                key = "%s::%s:advance" % (short, nm)
                bad = None
                if len(adv) != 1 or len(dec) != 1:
                    bad = "the cursor position and the remaining size are not adjusted together (%d advance(s), %d decrease(s))" % (len(adv), len(dec))
                else:
                    a, d = adv[0], dec[0]
                    ta = facts.expr_str(a["c"][1])
                    if ta != facts.expr_str(d["c"][1]):
                        bad = "buffer_ advances by `%s` but size_ decreases by `%s`" % (ta, facts.expr_str(d["c"][1]))
                    elif g.covered(g.pos(a), [g.pos(d)]) is not None or g.covered(g.pos(d), [g.pos(a)]) is not None:
                        bad = "a path adjusts only one of buffer_ / size_"
                    else:
                        okg = False
                        for op, l, r in cond.guards_facts(g, g.pos(a)):
                            if r is None:
                                continue
                            if (op == "<=" and facts.expr_str(l) == ta and this_field(r, "size_")) or \
                               (op == ">=" and this_field(l, "size_") and facts.expr_str(r) == ta):
                                okg = True
                        if not okg:
                            bad = "the advance by `%s` is not guarded by `%s <= size_`" % (ta, ta)
                if bad:
                    rep.violation(rule, key, facts.loc(f), bad + ": after that the cursor's own bound checks no longer describe the buffer")
                else:
                    rep.ok(rule, key, facts.loc(f), "buffer_ += n and size_ -= n together, under n <= size_")
            # R-c
            for x in facts.fn_nodes(f):
                if x["k"] != "CallExpr" or x.get("cname") not in RAW:
                    continue
                args = x["c"][1:]
                if not any(this_field(a_, "buffer_") for a_ in args[:2]):
                    continue
                txt, const = amount(f, x)
                if txt is None:
                    continue
                n += 1
                targ = f["id"].split("(")[0].split("::")[-1]
                seen[(short, targ)] = seen.get((short, targ), 0) + 1
                key = "%s::%s:%s#%d" % (short, targ[:60], x["cname"], seen[(short, targ)])
                guarded = False
                for op, l, r in cond.guards_facts(g, g.pos(x)):
                    if op == "true":
                        c0 = strip(l)
                        while c0["k"] == "CallExpr" and c0.get("cname") == "__builtin_expect":
                            c0 = strip(c0["c"][1])
                        if c0["k"] == "CXXMemberCallExpr" and c0.get("cname") == "can_read" and same_amount(f, c0["c"][1], txt, const):
                            guarded = True
                    if r is None:
                        continue
                    if op == ">=" and this_field(l, "size_") and same_amount(f, r, txt, const):
                        guarded = True
                    if op == "<=" and this_field(r, "size_") and same_amount(f, l, txt, const):
                        guarded = True
                skips = [y for y in facts.fn_nodes(f) if y["k"] == "CXXMemberCallExpr" and y.get("cname") == "skip" and len(y["c"]) == 2 and
                         same_amount(f, y["c"][1], txt, const)]
                followed = bool(skips) and g.reaches_exit_avoiding(g.pos(x), [g.pos(s_) for s_ in skips], normal_only=True) is None
                if not guarded:
                    rep.violation(rule, key, facts.loc(f, x), "%s of `%s` byte(s) at the cursor is not guarded by a test that that many bytes are left"
                                  % (x["cname"], txt))
                elif not followed:
                    rep.violation(rule, key, facts.loc(f, x), "%s of `%s` byte(s) is not followed on every path by skip(%s): the cursor does not "
                                  "move past what it just read / wrote" % (x["cname"], txt, txt))
                else:
                    rep.ok(rule, key, facts.loc(f, x), "guarded by size_ >= %s and followed by skip(%s)" % (txt, txt))
    if n < minimum:
        rep.analysis_broken("only %d cursor obligations found" % n)
