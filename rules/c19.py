"""C19 - ACK/SACK tracker (narrow claim, DESIGN.md C19).  Interval arithmetic over the wrapping 32-bit space and
interval merging are NOT decided.  Decided:

 R1 query     is_segment_acked, read as a decision table over {length == 0, more pieces, piece ends below the ACK,
              piece inside a SACKed interval}: a zero-length segment is acknowledged; a piece that neither ends below the
              cumulative ACK nor lies in a SACKed interval makes the answer false; otherwise the next piece is examined;
              the answer is true only after the last piece.
 R2 forget    every advance of the cumulative ACK in process_packet is preceded by
              cleanup_sacked_intervals(old ACK, new ACK) for the same new value.
 R3 serial    sequence numbers meet in <,>,<=,>= only inside seq_compare (AckedRange::next, the wrap splitter, is the
              listed exception).
 R4 no-skip   in process_sack every well-formed block that ends above the ACK reaches the piece loop (insert or advance):
              no path skips a block.
"""
from vlib import facts, cfg, cond, formula
from vlib.facts import strip
from rules import c06

PID = "C19"
AT = "Tins::TCPIP::AckTracker"


def fn(db, pref):
    fs = [f for fid, f in db.functions.items() if fid.startswith(pref)]
    if not fs:
        raise facts.AnalysisBroken("%s vanished" % pref)
    return fs[0]


def run(db, rep, tier):
    rep.rule("R1-query", "is_segment_acked's decision table equals the statement's: acked <=> every piece ends below the ACK or is SACKed", 1)
    rep.rule("R2-forget", "cumulative ACK advance is paired with cleanup_sacked_intervals(old, new)", 1)
    rep.rule("R3-serial", "no <,>,<=,>= between two sequence numbers outside seq_compare", 6)
    rep.rule("R4-no-skip", "every well-formed SACK block above the ACK is processed piece by piece", 1)
    rep.rule("R5-record-above", "a SACKed piece that starts above the cumulative ACK (any distance >= 1, across the wrap) is recorded "
                                "in the interval set, never folded into the cumulative ACK", 1)
    rep.rule("R7-tracker-reads-sack", "the ACK tracker a flow creates reads SACK blocks: its use_sack argument is not taken from the flow's own "
                                      "SYN (SACK-permitted announces willingness to RECEIVE SACKs; the blocks this tracker sees are sent by the peer)", 2)
    rep.rule("R8-no-extra-filter", "SACK pieces are recorded under no other condition than: block well-formed and ending above the ACK; the flow "
                                   "feeds its tracker from every TCP segment when tracking is on", 2)
    rep.rule("R6-sack-always", "SACK blocks are processed both on segments that advance the cumulative ACK and on those that do not", 1)
    r1(db, rep)
    r2(db, rep)
    c06.r2(db, rep, files=("src/tcp_ip/ack_tracker.cpp",),
           exceptions={"Tins::TCPIP::AckedRange::next(": "wrap splitter: compares the numeric storage order of the two ends to "
                       "cut a possibly wrapped range into at most two non-wrapping boost::icl intervals - not a sequence ordering"},
           rule="R3-serial")
    r4(db, rep)
    r5(db, rep)
    r6(db, rep)
    r7(db, rep)
    r8(db, rep)
    rep.explanation = ("Narrow claim: decides the query's decision table (values are only touched through seq_compare's sign and "
                       "set membership, so the table is complete), the ACK-advance/cleanup pairing, the comparison discipline "
                       "and that no SACK block is skipped, that a piece above the ACK is recorded rather than merged (R5, finite "
                       "evaluation of the branch condition over ACK values and distances around 1 and the wrap) and that SACK "
                       "processing does not depend on whether the ACK advanced (R6). Does NOT decide the interval arithmetic over the wrapping space, "
                       "interval merging, or agreement with a set-of-bytes model over histories.")
    rep.assumptions += ["boost::icl::contains / insert / erase implement set semantics on closed intervals"]


def r1(db, rep):
    f = fn(db, AT + "::is_segment_acked(")
    # conditions are read through named locals and through an extracted predicate helper (formula.reader)
    atoms, table = formula.truth_table(f, prep=formula.reader(db, f))
    roles = {"len0": lambda a: "length" in a and "0" in a.split("==")[0] + a.split("==")[-1] and "==" in a,
             "more": lambda a: "has_next" in a,
             "below": lambda a: "seq_compare" in a and "ack_number_" in a,
             "sacked": lambda a: "contains" in a}
    role_of = {}
    for a in atoms:
        for r, p in roles.items():
            if p(a):
                role_of[a] = r
    miss = [r for r in roles if r not in role_of.values()]
    if miss:
        rep.violation("R1-query", "is_segment_acked", facts.loc(f), "the query does not test %s (conditions: %s)" % (miss, atoms))
        return
    # polarity of the comparison atom: key is "comparison < 0" (ends below) possibly as "comparison < 0" / "0 < comparison"...
    ckey = [a for a in atoms if role_of.get(a) == "below"][0]
    def below(v):
        # normalised keys: "x < y".  `comparison >= 0` normalises to key "comparison < 0" with negative polarity,
        # so the atom's truth value is "comparison < 0" = ends below the ACK.
        k_ = ckey.replace(" ", "")
        if k_.endswith("<0") and k_.startswith("seq_compare(") and "interval_end" in k_.split(",")[0]:
            return v
        return None       # `> 0`, `== 0`, or the operands the other way round: not the statement's test
    bad = None
    for vals, res in table.items():
        env = dict((role_of[a], v) for a, v in zip(atoms, vals) if a in role_of)
        b = below(env["below"])
        if b is None:
            bad = ("the piece test is `%s`, not `ends below the cumulative ACK` (seq_compare(end, ack) < 0)" % ckey)
            break
        if env["len0"]:
            want = True
        elif not env["more"]:
            want = True
        elif b or env["sacked"]:
            want = "<loop>"
        else:
            want = False
        if res != want:
            bad = "under %s the query %s, the statement requires it to %s" % (
                env, describe(res), describe(want))
            break
    if bad:
        rep.violation("R1-query", "is_segment_acked", facts.loc(f), bad)
    else:
        rep.ok("R1-query", "is_segment_acked", facts.loc(f), "decision table over %s agrees on all %d rows" % (atoms, len(table)))


def describe(r):
    return {True: "answers acknowledged", False: "answers not acknowledged", "<loop>": "goes on to the next piece"}.get(r, str(r))


def r2(db, rep):
    f = fn(db, AT + "::process_packet(")
    g = cfg.FnCFG(f)
    stores = [n for n in facts.fn_nodes(f) if n["k"] == "BinaryOperator" and n["op"] == "=" and facts.expr_str(n["c"][0]) == "ack_number_"]
    if not stores:
        rep.violation("R2-forget", "process_packet", facts.loc(f), "process_packet never advances the cumulative ACK")
        return
    # the cumulative ACK moves WHENEVER the segment's ACK is ahead of it in serial arithmetic: with `seq_compare(new, old) > 0`
    # true (and the segment being TCP) no other condition - the ACK's numeric value, flags - may keep the store from running
    try:
        atoms, table = formula.must_table(f, g.pos(stores[0]), lambda a: "seq_compare" in a and "ack_number_" in a)
        ahead = [a for a in atoms if "seq_compare" in a]
        bad_ = None
        if len(ahead) == 1:
            # atom key is normalised "x < y": `seq_compare(..) > 0` appears as "0 < seq_compare(...)"
            pol_true = ahead[0].replace(" ", "").startswith("0<")
            for vals, must in table.items():
                v_ = dict(zip(atoms, vals))[ahead[0]]
                if (v_ if pol_true else not v_) and not must:
                    # paths leaving before the test (no TCP layer) do not count: ask again from the test itself
                    bad_ = True
        if bad_:
            cpos = None
            for b_ in g.blocks.values():
                c_ = g.idx.get(b_.get("cond")) if b_.get("cond") is not None else None
                if c_ is not None and "seq_compare" in facts.expr_str(c_) and "ack_number_" in facts.expr_str(c_):
                    cpos = b_
            # reachable from the true edge of the comparison's block to exit avoiding the store?
            ok_ = cpos is not None and len(cpos["s"]) == 2 and \
                g.reaches_exit_avoiding((cpos["s"][0], -1), [g.pos(stores[0])], normal_only=True, inclusive=True) is None and \
                facts.strip_all(g.idx.get(cpos["cond"]))["k"] == "BinaryOperator" and facts.strip_all(g.idx.get(cpos["cond"])).get("op") != "&&"
            if not ok_:
                rep.violation("R2-forget", "process_packet:advance-always", facts.loc(f, stores[0]),
                              "the cumulative ACK is not advanced on every path on which the segment's ACK is ahead of it "
                              "(seq_compare(new, old) > 0): a further condition can keep the store from running - e.g. an ACK whose "
                              "numeric value is 0 after the 2^32 wrap is ignored, SACKed ranges below it are kept and is_segment_acked "
                              "answers false for acknowledged data")
            else:
                rep.ok("R2-forget", "process_packet:advance-always", facts.loc(f, stores[0]), "advanced whenever seq_compare(new, old) > 0")
        elif len(ahead) == 1:
            rep.ok("R2-forget", "process_packet:advance-always", facts.loc(f, stores[0]), "advanced whenever seq_compare(new, old) > 0")
    except facts.AnalysisBroken:
        pass
    for i, s in enumerate(stores):
        newv = facts.expr_str(s["c"][1])
        # the cleanup, by effect: every piece of AckedRange(old ACK, new ACK) is erased from the interval set - in a member
        # called with (ack_number_, <new value>), or by the same loop written in place
        cl = []
        for n in facts.fn_nodes(f):
            if n["k"] == "CXXMemberCallExpr" and n.get("callee") and len(cfg.args(n)) == 2 and \
                    facts.expr_str(cfg.args(n)[0]).replace("this->", "") == "ack_number_" and facts.expr_str(cfg.args(n)[1]) == newv:
                h = db.fn(n["callee"])
                if h is not None and h.get("body") and h.get("rec") == f.get("rec") and len(h["params"]) == 2 and \
                        erase_loop(h, h["params"][0]["name"], h["params"][1]["name"]) is not None:
                    cl.append(n)
        lp = erase_loop(f, "ack_number_", newv)
        if lp is not None:
            cl.append(lp)
        key = "process_packet:advance#%d" % i
        if cl and all(g.before_on_all_paths(g.pos(c), g.pos(s)) for c in cl[:1]):
            rep.ok("R2-forget", key, facts.loc(f, s), "preceded on every path by the erasure of every piece of AckedRange(ack_number_, %s)" % newv)
        else:
            rep.violation("R2-forget", key, facts.loc(f, s),
                          "the cumulative ACK moves to %s without cleanup_sacked_intervals(old, new) first: SACKed ranges now below the ACK "
                          "stay in the interval set" % newv)


def _through_local(h, e):
    """a plain single-assignment local stands for its initialiser (one level)"""
    e0 = facts.strip_all(e)
    while e0["k"] in ("CXXConstructExpr", "MaterializeTemporaryExpr", "CXXBindTemporaryExpr") and len(e0.get("c", [])) == 1:
        e0 = facts.strip_all(e0["c"][0])
    sa = facts.single_assign(h)
    if e0["k"] == "DeclRefExpr" and e0.get("var") in sa and not e0.get("parm"):
        return sa[e0["var"]]
    return e


def erase_loop(h, a_txt, b_txt):
    """condition node of `AckedRange r(a, b); while (r.has_next()) acked_intervals_.erase(r.next());` in h, or None"""
    for d in facts.fn_nodes(h):
        if d["k"] != "VarDecl" or not d.get("c") or "AckedRange" not in ((facts.tyi(h, d.get("t")) or {}).get("name") or ""):
            continue
        ce = facts.strip_all(d["c"][0])
        args = [facts.expr_str(x).replace("this->", "") for x in ce.get("c", []) if x is not None]
        if args != [a_txt, b_txt]:
            continue
        for w in facts.fn_nodes(h):
            if w["k"] not in ("WhileStmt", "ForStmt"):
                continue
            real = [x for x in w["c"] if x is not None]
            body = real[-1]
            cs = [x for x in real[:-1] if x["k"] not in ("DeclStmt",) and any(
                y["k"] == "CXXMemberCallExpr" and y.get("cname") == "has_next" and
                any(z["k"] == "DeclRefExpr" and z.get("var") == d["var"] for z in facts.walk(y)) for y in facts.walk(x))]
            if not cs:
                continue
            c = cs[0]
            for e in facts.walk(body):
                # (the piece may be kept in a local first)
                if e["k"] == "CXXMemberCallExpr" and e.get("cname") == "erase" and "acked_intervals_" in facts.expr_str(e["c"][0]) and \
                        any(x["k"] == "CXXMemberCallExpr" and x.get("cname") == "next" and
                            any(y["k"] == "DeclRefExpr" and y.get("var") == d["var"] for y in facts.walk(x))
                            for a_ in e["c"][1:] for x in facts.walk(_through_local(h, a_))):
                    return c
    return None


def piece_loop(db):
    """where the per-piece loop `while (range.has_next())` of SACK processing lives: (process_sack, node of process_sack at
    which the loop is entered, function that contains the loop, the loop).  The loop may sit in process_sack itself or in a
    member it calls that runs it unconditionally."""
    f = fn(db, AT + "::process_sack(")

    def loops_of(h):
        return [n for n in facts.fn_nodes(h) if n["k"] == "WhileStmt" and
                "has_next" in facts.expr_str(n["c"][0] if len(n["c"]) == 2 else n["c"][1])]
    own = loops_of(f)
    if own:
        lp = own[0]
        return f, (lp["c"][0] if len(lp["c"]) == 2 else lp["c"][1]), f, lp
    for c in facts.fn_nodes(f):
        if c["k"] == "CXXMemberCallExpr" and c.get("callee"):
            h = db.fn(c["callee"])
            if h is not None and h.get("body") and h.get("rec") == f.get("rec") and h is not f and loops_of(h):
                lp = loops_of(h)[0]
                gh = cfg.FnCFG(h)
                lc = lp["c"][0] if len(lp["c"]) == 2 else lp["c"][1]
                if gh.reaches_exit_avoiding((gh.entry, -1), [gh.pos(lc)], normal_only=True) is None:
                    return f, c, h, lp
    return f, None, None, None


def r4(db, rep):
    f, site, lf, lp_ = piece_loop(db)
    g = cfg.FnCFG(f)
    decl = [n for n in facts.fn_nodes(f) if n["k"] == "VarDecl" and "AckedRange" in ((facts.tyi(f, n.get("t")) or {}).get("name") or "")]
    loops = [site] if site is not None else []
    if not decl or not loops:
        rep.violation("R4-no-skip", "process_sack", facts.loc(f), "cannot find the per-block range / the piece loop")
        return
    D = g.pos(decl[0])
    L = g.pos(site)
    skip = set()
    for b in g.blocks.values():
        c = g.idx.get(b.get("cond")) if b.get("cond") is not None else None
        if c is not None and len(b["s"]) == 2:
            # the edge on which `the block ends at / below the ACK` is known (whichever way the test is written and
            # whichever branch it guards): nothing to record there
            for pol in (True, False):
                fl_ = cond.facts_of(f, c, pol)
                c0_ = facts.strip_all(c)
                if not pol and c0_["k"] == "BinaryOperator" and c0_.get("op") == "&&" and \
                        any(g.idx.get(b2.get("cond")) is not None and facts.strip_all(g.idx.get(b2["cond"])) is facts.strip_all(c0_["c"][0])
                            for b2 in g.blocks.values() if b2.get("cond") is not None and b2 is not b):
                    # short-circuit: this block evaluates the RIGHT operand only (the left one has a block of its own and was
                    # true); on its false edge the right operand is false
                    fl_ = fl_ + cond.facts_of(f, c0_["c"][1], False)
                for op, l, r in fl_:
                    if op in (">=", "<=") and r is not None and facts.cval(r) == 0:
                        l0 = strip(l)
                        if l0["k"] == "CallExpr" and l0.get("cname") == "seq_compare" and len(l0["c"]) == 3:
                            a1 = facts.expr_str(facts.inline_locals(f, l0["c"][1]))
                            a2 = facts.expr_str(facts.inline_locals(f, l0["c"][2]))
                            # the block's last byte: `range.last()`, or the expression the range is / will be built from
                            ends = set(["last()"])
                            for d_ in decl:
                                ce_ = facts.strip_all(d_["c"][0]) if d_.get("c") else None
                                args_ = [x_ for x_ in (ce_.get("c") or []) if x_ is not None] if ce_ is not None else []
                                if len(args_) == 2:
                                    ends.add(facts.expr_str(facts.inline_locals(f, args_[1])))
                            if (op == "<=" and any(e_ in a1 for e_ in ends) and "ack_number_" in a2) or \
                                    (op == ">=" and "ack_number_" in a1 and any(e_ in a2 for e_ in ends)):
                                skip.add((b["id"], 0 if pol else 1))
    w = g.reaches_exit_avoiding(D, [L], normal_only=True, skip_edges=skip)
    if w is None and skip:
        rep.ok("R4-no-skip", "process_sack", facts.loc(f, decl[0]), "every path from a block's range either enters the piece loop or the block ends at/below the ACK")
    else:
        rep.violation("R4-no-skip", "process_sack", facts.loc(f, decl[0]),
                      "a well-formed SACK block that ends above the ACK can be skipped without being recorded (path around the piece loop)")


def r5(db, rep):
    """the recorded-vs-merged decision of process_sack, evaluated for pieces that start d >= 1 above the ACK"""
    from vlib import ieval
    _, _site, f, _lp = piece_loop(db)
    if f is None:
        f = fn(db, AT + "::process_sack(")
    key = "process_sack:piece-branch"
    cand = None
    for n in facts.fn_nodes(f):
        if n["k"] != "IfStmt":
            continue
        real = [x for x in n["c"] if x is not None]
        if len(real) < 3:
            continue

        def inserts(b):
            return any(x["k"] == "CXXMemberCallExpr" and x.get("cname") in ("insert", "add") and "acked_intervals_" in facts.expr_str(x)
                       for x in facts.walk(b))

        def sets_ack(b):
            return any(x["k"] == "BinaryOperator" and x.get("op") == "=" and strip(x["c"][0]).get("member") == "ack_number_"
                       for x in facts.walk(b))
        if inserts(real[1]) != inserts(real[2]) and (sets_ack(real[1]) or sets_ack(real[2])):
            cand = (n, real, inserts(real[1]))
    if cand is None:
        rep.analysis_broken("process_sack: the branch choosing between recording a piece and advancing the ACK was not found")
        return
    node, real, then_inserts = cand
    sc = db.fns_named("Tins::Internals::seq_compare")
    if not sc or not sc[0].get("body"):
        rep.analysis_broken("seq_compare body not available")
        return
    sc = sc[0]
    starts = set()
    for x in facts.fn_nodes(f):
        if x["k"] == "VarDecl" and x.get("c") and any(y.get("cname") == "interval_start" for y in facts.walk(x["c"][0])):
            starts.add(x["var"])
    M = 1 << 32
    bad = None
    n = 0
    try:
        for A in (0, 1, 1000, (1 << 31) - 1, 1 << 31, M - 2, M - 1):
            for d in (1, 2, 3, 1460, (1 << 31) - 1):
                S = (A + d) % M

                def tf(x, A=A, S=S):
                    if x["k"] == "DeclRefExpr" and x.get("var") in starts:
                        return S
                    if x["k"] == "CallExpr" and x.get("cname") == "interval_start":
                        return S
                    if x["k"] == "CallExpr" and x.get("cname") == "interval_end":
                        return (S + 99) % M
                    if x["k"] == "MemberExpr" and x.get("member") == "ack_number_":
                        return A
                    if x["k"] == "CallExpr" and x.get("cname") == "seq_compare":
                        a = ieval.ev(f, x["c"][1], {"__termfn__": tf}) % M
                        b = ieval.ev(f, x["c"][2], {"__termfn__": tf}) % M
                        env = {sc["params"][0]["var"]: a, sc["params"][1]["var"]: b}
                        return ieval.run_body(sc, sc["body"], env)
                    return None
                c = bool(ieval.ev(f, real[0], {"__termfn__": tf}))
                n += 1
                recorded = (c == then_inserts)
                if not recorded and bad is None:
                    bad = ("with cumulative ACK %d a SACKed piece starting at %d (%d above it) is folded into the cumulative ACK instead "
                           "of being recorded: byte(s) %d..%d were never acknowledged but the ACK jumps past them"
                           % (A, S, d, A, (S - 1) % M))
    except ieval.Unknown as e:
        rep.analysis_broken("process_sack: branch condition outside the finite evaluator: %s" % e)
        return
    if bad:
        rep.violation("R5-record-above", key, facts.loc(f, node), bad)
    else:
        rep.ok("R5-record-above", key, facts.loc(f, node), "`%s` selects the recording branch for all %d (ACK, distance>=1) cells"
               % (facts.expr_str(real[0]), n))


def r6(db, rep):
    from rules.c12 import path_avoiding
    f = fn(db, AT + "::process_packet(")
    g = cfg.FnCFG(f)
    key = "process_packet:process_sack"
    calls = [x for x in facts.fn_nodes(f) if x["k"] == "CXXMemberCallExpr" and x.get("cname") == "process_sack"]
    adv = [x for x in facts.fn_nodes(f) if x["k"] == "BinaryOperator" and x.get("op") == "=" and
           strip(x["c"][0]).get("member") == "ack_number_"]
    if len(calls) != 1 or len(adv) != 1:
        rep.analysis_broken("process_packet: expected one process_sack call and one ACK advance, found %d and %d" % (len(calls), len(adv)))
        return
    C, A = g.pos(calls[0]), g.pos(adv[0])
    after_adv = path_avoiding(g, A, C, [])
    without = g.reached_from_entry_avoiding(C, [A]) is not None
    if not after_adv:
        rep.violation("R6-sack-always", key, facts.loc(f, calls[0]),
                      "no path from the cumulative-ACK advance to process_sack(): SACK blocks carried by a segment that also advances "
                      "the ACK are dropped")
    elif not without:
        rep.violation("R6-sack-always", key, facts.loc(f, calls[0]),
                      "process_sack() is only reached after an ACK advance: SACK blocks on duplicate ACKs are dropped")
    else:
        rep.ok("R6-sack-always", key, facts.loc(f, calls[0]), "process_sack() reachable both through and around the ACK advance")


def r7(db, rep):
    n = 0
    for fid, f in sorted(db.functions.items()):
        if f.get("rec") != "Tins::TCPIP::Flow" or not f.get("body"):
            continue
        for x in facts.fn_nodes(f):
            if x["k"] not in ("CXXConstructExpr", "CXXTemporaryObjectExpr", "CXXFunctionalCastExpr") or x.get("crec") != AT:
                continue
            args = x.get("c", [])
            if len(args) < 1 or x["k"] == "CXXFunctionalCastExpr":
                continue
            n += 1
            key = "%s:AckTracker#%d" % (f["qual"].split("::")[-1], n)
            if len(args) < 2 or args[1]["k"] == "CXXDefaultArgExpr" or facts.cval(args[1]) == 1:
                rep.ok("R7-tracker-reads-sack", key, facts.loc(f, x), "use_sack is true")
                continue
            t = facts.expr_str(args[1])
            if facts.cval(args[1]) == 0:
                rep.violation("R7-tracker-reads-sack", key, facts.loc(f, x), "the tracker is created with SACK processing switched off")
            elif "sack_permitted" in t:
                rep.violation("R7-tracker-reads-sack", key, facts.loc(f, x),
                              "use_sack = `%s` is taken from this flow's own SYN; whether SACK blocks arrive is decided by the SYN of the "
                              "other direction, so with a one-sided announcement SACK blocks are ignored and SACKed segments are reported "
                              "unacknowledged" % t[:60])
            else:
                rep.analysis_broken("%s: use_sack = `%s` is neither constant nor a form the rule knows" % (key, t[:60]))
    if n < 2:
        rep.analysis_broken("only %d AckTracker constructions found in Flow" % n)


def r8(db, rep):
    # (a) guards of the piece loop
    f, site, lf, lp_ = piece_loop(db)
    g = cfg.FnCFG(f)
    loops = [lp_] if lp_ is not None else []
    key = "process_sack:piece-loop-guards"
    if not loops:
        rep.analysis_broken("process_sack: piece loop not found")
    else:
        # what guards the entry of the loop: the guards of the site in process_sack, plus (for a loop that lives in a member
        # process_sack calls) whatever that member tests before its loop
        gfs = list(cond.guards_facts(g, g.pos(site)))
        if lf is not f:
            gl = cfg.FnCFG(lf)
            lc_ = lp_["c"][0] if len(lp_["c"]) == 2 else lp_["c"][1]
            gfs += [x for x in cond.guards_facts(gl, gl.pos(lc_)) if "has_next" not in facts.expr_str(x[1])]
        bad = None
        for op, l, r in gfs:
            l, r = facts.inline_locals(f, l), (facts.inline_locals(f, r) if r is not None else None)      # named locals read through
            t = facts.expr_str(l) + " " + op + " " + (facts.expr_str(r) if r is not None else "")
            ok = False
            if "sack.size()" in t or ".size()" in t and "i" in t.split("(")[0]:
                # the block index is in range - of the WHOLE option: the bound is the container's size itself, not a
                # smaller quantity computed from it (`min(size, 6)`: blocks beyond the third are dropped)
                bound = facts.strip_all(r) if r is not None else None
                other = facts.strip_all(l)
                cand = [x_ for x_ in (bound, other) if x_ is not None and x_["k"] == "CXXMemberCallExpr" and x_.get("cname") == "size"]
                ok = bool(cand) or not any(x_["k"] in ("ConditionalOperator",) or (x_["k"] == "CallExpr" and x_.get("cname") in ("min", "max"))
                                           for x_ in facts.walk(r if r is not None else l))
            if "seq_compare" in t and t.count("sack[") + t.count("sack [") >= 2 and "ack_number_" not in t:
                ok = True                           # left edge below right edge
            if "seq_compare" in t and ("last()" in t or "ack_number_" in t):
                ok = True                           # block ends above the ACK
            if "has_next" in t:
                ok = True
            if not ok:
                bad = t
        if bad:
            rep.violation("R8-no-extra-filter", key, facts.loc(f, loops[0]),
                          "SACK pieces are only recorded when additionally `%s`: blocks a conforming receiver sends are discarded (for instance "
                          "a test against the unscaled window field)" % bad[:120])
        else:
            rep.ok("R8-no-extra-filter", key, facts.loc(f, loops[0]), "recorded whenever the block is well-formed and ends above the ACK")
    # (b) Flow::process_packet feeds the tracker
    fs = [x for x in db.fns_named("Tins::TCPIP::Flow::process_packet") if x.get("body")]
    key = "Flow::process_packet:ack_tracker"
    if not fs:
        rep.analysis_broken("Flow::process_packet vanished")
        return
    f = fs[0]
    g = cfg.FnCFG(f)
    calls = [x for x in facts.fn_nodes(f) if x["k"] == "CXXMemberCallExpr" and x.get("cname") == "process_packet" and "ack_tracker_" in facts.expr_str(x)]
    if len(calls) != 1:
        rep.violation("R8-no-extra-filter", key, facts.loc(f), "expected one ack_tracker_.process_packet() call, found %d" % len(calls))
        return
    bad = None
    for op, l, r in cond.guards_facts(g, g.pos(calls[0])):
        t = facts.expr_str(l) + (" " + op + " " + facts.expr_str(r) if r is not None else "")
        if "ack_tracking" in t or t.strip() in ("tcp",) or t.startswith("tcp "):
            continue
        bad = t
    if bad:
        rep.violation("R8-no-extra-filter", key, facts.loc(f, calls[0]),
                      "the ACK tracker only sees segments when `%s`: with that condition false the tracker stays at the handshake ACK" % bad[:100])
    else:
        rep.ok("R8-no-extra-filter", key, facts.loc(f, calls[0]), "fed from every TCP segment when tracking is enabled")
    # (c) what the segment acknowledges is not thrown away in the same call: members of Flow that REPLACE the tracker
    #     (`ack_tracker_ = AckTracker(...)` when the connection is established) run before the tracker is fed
    rec = f.get("rec")
    resetters = set()
    for h in db.functions.values():
        if h.get("rec") == rec and h.get("body") and h is not f:
            for x in facts.fn_nodes(h):
                if x["k"] in ("BinaryOperator", "CXXOperatorCallExpr") and x.get("op") == "=" and \
                        facts.strip_all(x["c"][0] if x["k"] == "BinaryOperator" else x["c"][1]).get("member") == "ack_tracker_":
                    resetters.add(h["id"])
    key = "Flow::process_packet:feed-after-reset"
    late = [x for x in facts.fn_nodes(f) if x["k"] == "CXXMemberCallExpr" and x.get("callee") in resetters and
            g.pos(x) and g.reachable(g.pos(calls[0]), g.pos(x))]
    if late:
        rep.violation("R8-no-extra-filter", key, facts.loc(f, late[0]),
                      "%s() - which replaces ack_tracker_ by a fresh tracker when the connection is established - runs AFTER the tracker "
                      "was fed with the same segment: the SACK blocks of that segment are discarded with the old tracker" % late[0].get("cname"))
    # (d) the transition to ESTABLISHED - the first segment that carries the peer's real ACK - re-creates the tracker from that
    #     ACK: the one built earlier holds the placeholder of the SYN
    for h in db.functions.values():
        if h["id"] in resetters:
            idx_h, par_h = facts.index_fn(h)
            for x in facts.fn_nodes(h):
                if x["k"] == "BinaryOperator" and x.get("op") == "=" and facts.strip_all(x["c"][0]).get("member") == "state_" and \
                        "ESTABLISHED" in facts.expr_str(x["c"][1]):
                    blk = par_h.get(x["id"])
                    while blk is not None and blk["k"] != "CompoundStmt":
                        blk = par_h.get(blk["id"])
                    seeded = blk is not None and any(
                        y["k"] in ("BinaryOperator", "CXXOperatorCallExpr") and y.get("op") == "=" and
                        facts.strip_all(y["c"][0] if y["k"] == "BinaryOperator" else y["c"][1]).get("member") == "ack_tracker_" and
                        "ack_seq" in facts.expr_str(y) for y in facts.walk(blk))
                    k2 = "Flow::%s:reseed-on-established" % h["qual"].split("::")[-1]
                    if seeded:
                        rep.ok("R8-no-extra-filter", k2, facts.loc(h, x), "ack_tracker_ re-created from the segment's ACK where the flow becomes ESTABLISHED")
                    else:
                        rep.violation("R8-no-extra-filter", k2, facts.loc(h, x),
                                      "the flow becomes ESTABLISHED without re-creating ack_tracker_ from the peer's ACK: the tracker still "
                                      "holds the placeholder ACK 0 of the SYN and can only move forward from 0 in serial arithmetic - for a "
                                      "peer sequence number in the upper half of the space it never follows the ACKs and drops every SACK block")
    if late:
        pass
    elif not resetters:
        rep.violation("R8-no-extra-filter", key, facts.loc(f, calls[0]),
                      "no member of Flow re-creates ack_tracker_ from the peer's first ACK any more: the tracker built with the placeholder "
                      "ACK 0 can only move forward from 0 in serial arithmetic, so for an initial sequence number in the upper half of the "
                      "sequence space it never follows the peer's ACKs and drops every SACK block as `below the ACK`")
    else:
        rep.ok("R8-no-extra-filter", key, facts.loc(f, calls[0]), "no member that replaces the tracker (%d found) runs after it was fed" % len(resetters))
