#!/bin/sh
# Build the fact extractor from files on disk only (offline).
set -e
cd "$(dirname "$0")"
python3 -c "
import sys; sys.path.insert(0,'.')
from vlib import facts
facts.ensure_tool()
print('tinsfacts built:', facts.TOOL)
"
