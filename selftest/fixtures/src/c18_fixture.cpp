// Positive controls for C18: each construct below must be reported.
#include <cstring>
#include <cstdlib>
#include <ctime>
#include <arpa/inet.h>
namespace Fx {
static int hidden_counter = 0;                 // written by next_id
int next_id() { return ++hidden_counter; }
const char* render(unsigned v) {
    static char buf[16];                        // scratch buffer shared by all callers
    buf[0] = (char)('0' + v % 10); buf[1] = 0;
    return buf;
}
unsigned table_lookup(unsigned i) {
    static unsigned table[4];
    static bool ready = false;                  // lazy initialisation flag
    if (!ready) { for (unsigned k = 0; k < 4; ++k) table[k] = k * k; ready = true; }
    return table[i & 3];
}
struct Cache { mutable int hits; int value; };
const Cache const_with_mutable = {0, 7};       // const object with mutable part
int read_only_table(unsigned i) {
    static unsigned squares[4] = {0, 1, 4, 9};  // never written: must NOT be reported
    return squares[i & 3];
}
const char* addr(in_addr a) { return inet_ntoa(a); }   // deny-listed libc
char* tok(char* s) { return strtok(s, ","); }
template <typename T> struct Reg { static int slots; };
template <typename T> int Reg<T>::slots = 0;           // static of a class template pattern
template <typename T> int bump() { static int calls = 0; return ++calls; }  // uninstantiated
}
