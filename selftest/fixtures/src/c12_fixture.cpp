// Controls for C12.R1 / R4.
#include <utility>
namespace Fx {
struct Obj { virtual ~Obj() {} virtual Obj* clone() const { return new Obj(*this); } };

struct Base {
    Base() : child_(0) {}
    Base(const Base& o) : child_(o.child_ ? o.child_->clone() : 0) {}
    Base& operator=(const Base& o) { if (this != &o) { delete child_; child_ = o.child_ ? o.child_->clone() : 0; } return *this; }
    virtual ~Base() { delete child_; }
    Obj* child_;
};
// R4: forwards
struct Good : Base {
    int x;
    Good() : x(0) {}
    Good(const Good& o) : Base(o), x(o.x) {}
    Good& operator=(const Good& o) { Base::operator=(o); x = o.x; return *this; }
};
// R4: forgets the base
struct Bad : Base {
    int x;
    Bad() : x(0) {}
    Bad(const Bad& o) : x(o.x) {}
    Bad& operator=(const Bad& o) { x = o.x; return *this; }
};

// R1 controls
struct OwnerGood {
    OwnerGood() : p_(0) {}
    OwnerGood(const OwnerGood& o) : p_(o.p_ ? o.p_->clone() : 0) {}
    OwnerGood(OwnerGood&& o) : p_(o.p_) { o.p_ = 0; }
    OwnerGood& operator=(const OwnerGood& o) { if (this != &o) { delete p_; p_ = o.p_ ? o.p_->clone() : 0; } return *this; }
    OwnerGood& operator=(OwnerGood&& o) { if (this != &o) { std::swap(p_, o.p_); } return *this; }
    ~OwnerGood() { delete p_; }
    Obj* p_;
};
struct OwnerCloneFirst {   // no guard, but clones before deleting: fine
    OwnerCloneFirst() : p_(0) {}
    OwnerCloneFirst(const OwnerCloneFirst& o) : p_(o.p_ ? o.p_->clone() : 0) {}
    OwnerCloneFirst& operator=(const OwnerCloneFirst& o) { Obj* n = o.p_ ? o.p_->clone() : 0; delete p_; p_ = n; return *this; }
    ~OwnerCloneFirst() { delete p_; }
    Obj* p_;
};
struct OwnerNoGuard {      // delete then clone through the dangling pointer on self-assignment
    OwnerNoGuard() : p_(0) {}
    OwnerNoGuard(const OwnerNoGuard& o) : p_(o.p_ ? o.p_->clone() : 0) {}
    OwnerNoGuard& operator=(const OwnerNoGuard& o) { delete p_; p_ = o.p_ ? o.p_->clone() : 0; return *this; }
    ~OwnerNoGuard() { delete p_; }
    Obj* p_;
};
struct OwnerAlias {        // copy aliases
    OwnerAlias() : p_(0) {}
    OwnerAlias(const OwnerAlias& o) : p_(o.p_) {}
    OwnerAlias& operator=(const OwnerAlias& o) { if (this != &o) { delete p_; p_ = o.p_ ? o.p_->clone() : 0; } return *this; }
    ~OwnerAlias() { delete p_; }
    Obj* p_;
};
struct OwnerKeeps {        // source without object: target keeps its old one
    OwnerKeeps() : p_(0) {}
    OwnerKeeps(const OwnerKeeps& o) : p_(o.p_ ? o.p_->clone() : 0) {}
    OwnerKeeps& operator=(const OwnerKeeps& o) { if (this != &o) { if (o.p_) { delete p_; p_ = o.p_->clone(); } } return *this; }
    ~OwnerKeeps() { delete p_; }
    Obj* p_;
};
struct OwnerMoveLeaves {   // move ctor leaves the source non-null
    OwnerMoveLeaves() : p_(0) {}
    OwnerMoveLeaves(const OwnerMoveLeaves& o) : p_(o.p_ ? o.p_->clone() : 0) {}
    OwnerMoveLeaves(OwnerMoveLeaves&& o) : p_(o.p_) {}
    OwnerMoveLeaves& operator=(const OwnerMoveLeaves& o) { if (this != &o) { delete p_; p_ = o.p_ ? o.p_->clone() : 0; } return *this; }
    ~OwnerMoveLeaves() { delete p_; }
    Obj* p_;
};
struct OwnerImplicit {     // rule of three violated
    OwnerImplicit() : p_(0) {}
    ~OwnerImplicit() { delete p_; }
    Obj* p_;
};
void use() { OwnerImplicit a; OwnerImplicit b(a); b = a; Good g; Good g2(g); g2 = g; Bad x; Bad y(x); y = x;
  OwnerGood og; OwnerGood og2(og); og2 = og; OwnerGood og3(std::move(og)); og3 = std::move(og2);
  OwnerCloneFirst c1; OwnerCloneFirst c2(c1); c2 = c1; OwnerNoGuard n1; OwnerNoGuard n2(n1); n2 = n1;
  OwnerAlias a1; OwnerAlias a2(a1); a2 = a1; OwnerKeeps k1; OwnerKeeps k2(k1); k2 = k1;
  OwnerMoveLeaves m1; OwnerMoveLeaves m2(std::move(m1)); m2 = m1; }

// R5 / R6 controls
struct Layer {
    Layer() : inner_pdu_(0) {}
    ~Layer() { delete inner_pdu_; }
    Layer* inner_pdu() const { return inner_pdu_; }
    Layer* release_inner_pdu() { Layer* r = inner_pdu_; inner_pdu_ = 0; return r; }
    void drop_good() { delete inner_pdu_; inner_pdu_ = 0; }
    void drop_leaks() { inner_pdu_ = 0; }                           // R5 positive: old target leaked
    Layer* inner_pdu_;
};
inline void borrowed_ok(Layer* t) { Layer* raw = t->inner_pdu(); if (raw) { t->release_inner_pdu(); delete raw; } }
inline void borrowed_bad(Layer* t, bool keep) {                     // R6 positive: deleted while t still owns it
    Layer* raw = t->inner_pdu();
    if (keep) { t->release_inner_pdu(); }
    else { delete raw; }
}
inline void use_them() { Layer l; l.drop_good(); l.drop_leaks(); borrowed_ok(&l); borrowed_bad(&l, true); }
}
