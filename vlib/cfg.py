"""E-CFG: path queries over clang's per-function CFG (as exported by tinsfacts).

Positions are (block id, element index).  clang lists a block's elements in
evaluation order and, with setAllAlwaysAdd, every sub-expression is its own
element, so "A is evaluated before B on every path" questions reduce to
reachability questions on the element-level graph.
"""
from . import facts


class FnCFG(object):
    def __init__(self, f):
        self.f = f
        g = f.get("cfg")
        if not g:
            raise facts.AnalysisBroken("no CFG for %s" % f["id"])
        self.entry = g["entry"]
        self.exit = g["exit"]
        self.blocks = dict((b["id"], b) for b in g["blocks"])
        self.idx, self.parent = facts.index_fn(f)
        self.preds = dict((b, []) for b in self.blocks)
        for b in self.blocks.values():
            for s in b["s"]:
                if s is not None:
                    self.preds[s].append(b["id"])
        self.elem_pos = {}
        for b in self.blocks.values():
            for i, e in enumerate(b["e"]):
                if e >= 0 and e not in self.elem_pos:
                    self.elem_pos[e] = (b["id"], i)
        # blocks that end in a throw / noreturn call: their edge to EXIT is exceptional
        self.throws = set()
        for b in self.blocks.values():
            if b.get("noreturn"):
                self.throws.add(b["id"])
                continue
            for e in b["e"]:
                n = self.idx.get(e)
                if n is not None and n["k"] == "CXXThrowExpr":
                    self.throws.add(b["id"])
                    break
        self._edge_dom = None

    # -- positions --------------------------------------------------------------
    def pos(self, node):
        """position where `node` is evaluated (the node itself if it is a CFG
        element, otherwise its nearest element ancestor)"""
        nid = node["id"] if isinstance(node, dict) else node
        cur = nid
        while cur is not None:
            if cur in self.elem_pos:
                return self.elem_pos[cur]
            p = self.parent.get(cur)
            cur = p["id"] if p is not None else None
        # a short-circuit condition / statement that is only a terminator: use its first evaluated sub-expression
        node = self.idx.get(nid)
        if node is not None:
            for x in facts.walk(node):
                if x["id"] in self.elem_pos:
                    return self.elem_pos[x["id"]]
        return None

    def last_pos(self, node):
        """position after the whole sub-tree of `node` has been evaluated: the
        maximal element position among its descendants in the same block as the
        node's own element (falls back to pos)."""
        p = self.pos(node)
        return p

    def succs(self, bid, normal_only=False):
        b = self.blocks[bid]
        if normal_only and bid in self.throws:
            return []
        return [s for s in b["s"] if s is not None]

    # -- reachability over element positions -----------------------------------
    def reaches_exit_avoiding(self, start, avoid, normal_only=True, inclusive=False, skip_edges=()):
        """Is there a path from just after `start` (or from start itself when
        inclusive) to a normal function exit that touches no position in
        `avoid`?  Returns a witness list of block ids or None."""
        avoid_by_block = {}
        for (b, i) in avoid:
            avoid_by_block.setdefault(b, []).append(i)
        sb, si = start
        first = si if inclusive else si + 1
        # does the remainder of the start block hit an avoid position?
        for i in avoid_by_block.get(sb, []):
            if i >= first:
                return None
        if sb == self.exit:
            return [sb]
        skip_edges = set(skip_edges)

        def nexts(b):
            if normal_only and b in self.throws:
                return []
            return [s for k, s in enumerate(self.blocks[b]["s"]) if s is not None and (b, k) not in skip_edges]
        seen = set()
        stack = [(s, [sb, s]) for s in nexts(sb)]
        while stack:
            b, path = stack.pop()
            if b in seen:
                continue
            seen.add(b)
            if b in avoid_by_block:
                continue
            if b == self.exit:
                return path
            for s in nexts(b):
                if s not in seen:
                    stack.append((s, path + [s]))
        return None

    def reached_from_entry_avoiding(self, target, avoid, skip_edges=()):
        """Is there a path from function entry to `target` touching no position
        in `avoid` before reaching it (and using no edge (block, successor index) of skip_edges)?
        Witness list of block ids or None."""
        skip_edges = set(skip_edges)
        avoid_by_block = {}
        for (b, i) in avoid:
            avoid_by_block.setdefault(b, []).append(i)
        tb, ti = target
        seen = set()
        stack = [(self.entry, [self.entry])]
        while stack:
            b, path = stack.pop()
            if b in seen:
                continue
            seen.add(b)
            if b == tb:
                if not any(i < ti for i in avoid_by_block.get(b, [])):
                    return path
                # target block entered but an avoid position precedes the target; a
                # loop may re-enter the block, which does not help (same prefix)
                continue
            if b in avoid_by_block:
                continue
            for k_, s in enumerate(self.blocks[b]["s"]):
                if s is not None and (b, k_) not in skip_edges and s not in seen:
                    stack.append((s, path + [s]))
        return None

    def covered(self, site, comps, normal_only=True):
        """Pairing: every entry->normal-exit path through `site` contains at
        least one position of `comps`.  Returns None when covered, else a
        (path_to_site, path_from_site) witness."""
        a = self.reached_from_entry_avoiding(site, comps)
        if a is None:
            return None
        b = self.reaches_exit_avoiding(site, comps, normal_only)
        if b is None:
            return None
        return (a, b)

    def before_on_all_paths(self, first, second):
        """every path from entry to `second` passes `first`"""
        return self.reached_from_entry_avoiding(second, [first]) is None

    def reachable(self, a, b):
        """some path leads from position a to position b (a evaluated earlier)"""
        ab, ai = a
        bb, bi = b
        if ab == bb and ai < bi:
            return True
        seen = set()
        stack = list(self.succs(ab))
        while stack:
            x = stack.pop()
            if x in seen:
                continue
            seen.add(x)
            if x == bb:
                return True
            stack.extend(self.succs(x))
        return False

    def first_hit(self, start, targets, kills):
        """a position of `targets` that some path from just after `start` reaches before any position of `kills`, or None"""
        tb, kb = {}, {}
        for (b, i) in targets:
            tb.setdefault(b, []).append(i)
        for (b, i) in kills:
            kb.setdefault(b, []).append(i)

        def scan(b, lo):
            """('hit', pos) / ('kill',) / ('through',) for block b from element index lo"""
            ev = sorted([(i, "t") for i in tb.get(b, []) if i >= lo] + [(i, "k") for i in kb.get(b, []) if i >= lo])
            if not ev:
                return ("through",)
            return ("hit", (b, ev[0][0])) if ev[0][1] == "t" else ("kill",)
        r = scan(start[0], start[1] + 1)
        if r[0] == "hit":
            return r[1]
        if r[0] == "kill":
            return None
        seen = set()
        stack = list(self.succs(start[0]))
        while stack:
            b = stack.pop()
            if b in seen:
                continue
            seen.add(b)
            r = scan(b, 0)
            if r[0] == "hit":
                return r[1]
            if r[0] == "kill":
                continue
            stack.extend(self.succs(b))
        return None

    # -- guards -------------------------------------------------------------------
    def edge_dominance(self):
        """For every conditional edge (block D, successor index k): the set of
        blocks every path to which uses that edge."""
        if self._edge_dom is not None:
            return self._edge_dom
        full = self._reach(None)
        res = {}
        for b in self.blocks.values():
            ss = b["s"]
            if len(ss) < 2 or b.get("cond") is None:
                continue
            for k, s in enumerate(ss):
                if s is None:
                    continue
                # parallel edges to the same successor do not discriminate
                if sum(1 for x in ss if x == s) > 1:
                    continue
                without = self._reach((b["id"], k))
                res[(b["id"], k)] = full - without
        self._edge_dom = res
        return res

    def _reach(self, skip_edge):
        seen = set()
        stack = [self.entry]
        while stack:
            x = stack.pop()
            if x in seen:
                continue
            seen.add(x)
            for k, s in enumerate(self.blocks[x]["s"]):
                if s is None or (skip_edge is not None and skip_edge == (x, k)):
                    continue
                if s not in seen:
                    stack.append(s)
        return seen

    def guards_at(self, pos):
        """[(condition node, polarity)] that hold whenever `pos` is reached.
        Only two-way branches (if / while / for / ?: / && / ||) are reported;
        polarity True = the condition evaluated to true."""
        bid = pos[0]
        out = []
        for (d, k), blocks in self.edge_dominance().items():
            if bid in blocks:
                b = self.blocks[d]
                if len(b["s"]) == 2 and b.get("termk") not in ("SwitchStmt",):
                    cond = self.idx.get(b["cond"])
                    if cond is not None:
                        out.append((cond, k == 0, d))
        return out

    def switch_cases_at(self, pos):
        """[(switch condition node, [case label nodes])] dominating pos"""
        bid = pos[0]
        out = []
        for (d, k), blocks in self.edge_dominance().items():
            if bid in blocks:
                b = self.blocks[d]
                if b.get("termk") == "SwitchStmt":
                    tgt = self.blocks[b["s"][k]]
                    out.append((self.idx.get(b["cond"]), self.idx.get(tgt.get("label")) if tgt.get("label") is not None else None, d))
        return out

    def exits(self):
        """[(block id, kind)] for every predecessor of EXIT: kind 'throw' or 'return'"""
        out = []
        for p in self.preds[self.exit]:
            out.append((p, "throw" if p in self.throws else "return"))
        return out

    def return_nodes(self):
        return [n for n in facts.fn_nodes(self.f) if n["k"] == "ReturnStmt"]


def calls_in(f, pred=None):
    for n in facts.fn_nodes(f):
        if n["k"] in ("CallExpr", "CXXMemberCallExpr", "CXXOperatorCallExpr", "CXXConstructExpr",
                      "CXXTemporaryObjectExpr"):
            if pred is None or pred(n):
                yield n


def member_of_this(n):
    """name of the data member when n is `this->m` / `m` (implicit this), else None"""
    n = facts.strip(n)
    if n["k"] == "MemberExpr" and n.get("isfield") and n.get("c"):
        b = facts.strip(n["c"][0])
        if b["k"] == "CXXThisExpr":
            return n["member"]
    return None


def receiver(call):
    """object expression of a member call / first operand of an operator call"""
    if call["k"] == "CXXMemberCallExpr":
        me = facts.strip(call["c"][0])
        if me["k"] == "MemberExpr" and me.get("c"):
            return facts.strip(me["c"][0])
        return None
    if call["k"] == "CXXOperatorCallExpr" and len(call["c"]) >= 2:
        return facts.strip(call["c"][1])
    return None


def args(call):
    if call["k"] == "CXXMemberCallExpr":
        return call["c"][1:]
    if call["k"] == "CXXOperatorCallExpr":
        return call["c"][2:] if len(call["c"]) > 2 else []
    if call["k"] == "CallExpr":
        return call["c"][1:]
    return call.get("c", [])


def forward_dataflow(g, init, transfer, join, max_iter=2000):
    """Generic forward may-analysis over the element-level CFG.
    init: state at entry; transfer(node, state, pos) -> state (node = element
    node dict); join(a, b) -> state.  States must be comparable with ==.
    Returns {block id: state at block entry}."""
    inn = {g.entry: init}
    work = [g.entry]
    n = 0
    while work:
        n += 1
        if n > max_iter:
            raise facts.AnalysisBroken("dataflow did not converge in %s" % g.f["id"])
        b = work.pop()
        st = inn[b]
        blk = g.blocks[b]
        for i, e in enumerate(blk["e"]):
            node = g.idx.get(e)
            if node is not None:
                st = transfer(node, st, (b, i))
        for s in g.succs(b, normal_only=True):
            if s not in inn:
                inn[s] = st
                work.append(s)
            else:
                j = join(inn[s], st)
                if j != inn[s]:
                    inn[s] = j
                    work.append(s)
    return inn
