"""E-TABLE: a `switch` over a parameter (or member) whose arms return constants or create objects, read as a finite map."""
from . import facts
from .facts import strip


def outcome(f, stmts):
    """classify what a case group does: first return statement reached in straight line"""
    rets = []
    for st in stmts:
        for x in facts.walk(st):
            if x["k"] == "ReturnStmt":
                rets.append(x)
    if not rets:
        return ("none",)
    return classify_return(f, rets[-1] if len(rets) > 1 else rets[0]), [classify_return(f, r) for r in rets]


def classify_return(f, r):
    if not r.get("c"):
        return ("void",)
    e = r["c"][0]
    for x in facts.walk(e):
        if x["k"] == "CXXNewExpr":
            for y in facts.walk(x):
                if y["k"] in ("CXXConstructExpr", "CXXTemporaryObjectExpr") and y.get("crec"):
                    return ("class", y["crec"])
    e0 = facts.strip_all(e)
    for x in facts.walk(e):
        if x["k"] in ("CallExpr", "CXXMemberCallExpr") and (x.get("cname") or "") in ("from_bytes",):
            return ("factory", x.get("cqual") or x.get("callee", "").split("(")[0])
    v = facts.cval(e)
    if v is not None:
        nm = None
        for x in facts.walk(e):
            if x["k"] == "DeclRefExpr" and x.get("enumc"):
                nm = x["enumc"]
        return ("const", int(v), nm)
    if e0["k"] == "ConditionalOperator":
        return ("cond", facts.expr_str(e0)[:80])
    return ("other", facts.expr_str(e0)[:80])


def switch_table(f, sw=None):
    """({value: outcome}, default outcome, all-return-lists) of the first switch of f (or the given switch node)"""
    if sw is None:
        sws = [n for n in facts.fn_nodes(f) if n["k"] == "SwitchStmt"]
        if not sws:
            return table_by_evaluation(f)
        sw = sws[0]
    real = [x for x in sw["c"] if x is not None]
    body = real[-1]
    if not any(x["k"] == "ReturnStmt" for x in facts.walk(body)):
        # arms that only assign a result variable returned after the switch: the function is executed instead
        t = table_by_evaluation(f)
        if t is not None:
            return t[0], t[1], sw
    groups = []
    cur = None

    def open_case(lbl):
        vals, inner = [], lbl
        while inner is not None and inner["k"] in ("CaseStmt", "DefaultStmt"):
            if inner["k"] == "CaseStmt":
                vals.append(facts.cval(inner["c"][0]))
            else:
                vals.append(None)
            inner = inner["c"][-1] if inner.get("c") else None
        return vals, inner
    for st in body.get("c", []):
        if st["k"] in ("CaseStmt", "DefaultStmt"):
            vals, first = open_case(st)
            if cur is not None and not cur[2]:
                cur[0].extend(vals)
                if first is not None:
                    cur[1].append(first)
            else:
                cur = [vals, [first] if first is not None else [], False]
                groups.append(cur)
            if first is not None and first["k"] in ("ReturnStmt", "BreakStmt"):
                cur[2] = True
        else:
            if cur is not None:
                cur[1].append(st)
                if st["k"] in ("ReturnStmt", "BreakStmt"):
                    cur[2] = True
    table = {}
    default = None
    for vals, stmts, _ in groups:
        oc = outcome(f, stmts)
        for v in vals:
            if v is None:
                default = oc
            else:
                table[int(v)] = oc
    # statements after the switch are the fall-out of a breaking (or absent) default and of every arm that only breaks
    after = []
    for blk in facts.fn_nodes(f):
        if blk["k"] == "CompoundStmt" and any(x is sw for x in blk.get("c", [])):
            kids = [x for x in blk["c"] if x is not None]
            after = kids[[id(x) for x in kids].index(id(sw)) + 1:]
    if after:
        tail = outcome(f, after)
        if tail != ("none",):
            if default is None or default == ("none",):
                default = tail
            for v in list(table):
                if table[v] == ("none",):
                    table[v] = tail
    return table, default, sw


def has_default(sw):
    for x in facts.walk(sw):
        if x["k"] == "DefaultStmt":
            return True
    return False


def table_by_evaluation(f):
    """The same finite map for a function that is not written as a switch (a constant table searched by a loop, an
    if-chain ...): a one-parameter function from an enumeration to an integer/enumeration is EXECUTED (ieval, concrete)
    for every enumerator of its parameter type and for one value outside them (the default)."""
    from . import ieval
    db = facts.db_of(f)
    if db is None or len(f.get("params", ())) != 1 or not f.get("body"):
        return None
    pt = facts.tyi(f, f["params"][0].get("t")) or {}
    rt = facts.tyi(f, f.get("ret")) or {}
    if pt.get("k") != "enum" or rt.get("k") not in ("enum", "int") or pt.get("name") not in db.enums:
        return None
    names = {}
    if rt.get("k") == "enum" and rt.get("name") in db.enums:
        for en in db.enums[rt["name"]]["enumerators"]:
            names.setdefault(en["v"], en.get("qual") or en["name"])
    pv = f["params"][0]["var"]
    vals = sorted(set(en["v"] for en in db.enums[pt["name"]]["enumerators"]))
    outside = max(vals) + 1 if vals else 0

    def no_user_types(e):
        # the registry of user-defined PDU types is empty at analysis time (assumption of C03 / C13: user-defined layers are
        # not part of the quantifier)
        if e["k"] == "CallExpr" and (e.get("cname") or "") == "pdu_type_registered":
            return 0
        return None

    def run(v):
        r = ieval.run_body(f, f["body"], {pv: v, "__db__": db, "__termfn__": no_user_types})
        if r is None:
            raise ieval.Unknown("no value returned")
        oc = ("const", int(r), names.get(int(r)))
        return oc, [oc]
    try:
        default = run(outside)
        table = {}
        for v in vals:
            oc = run(v)
            if oc[0] != default[0]:
                table[int(v)] = oc
    except ieval.Unknown:
        return None
    return table, default, f["body"]
