"""Scratch copies of the repository for the sensitivity / benign batteries.

Copies live under $VERIF_SCRATCH (default /var/tmp/verif-scratch), outside /repo
and /verif, and are removed as soon as the run on them is finished.
"""
import json
import os
import shutil
import subprocess
import sys

from . import facts

SCRATCH = os.environ.get("VERIF_SCRATCH", "/var/tmp/verif-scratch")


def make(tag):
    d = os.path.join(SCRATCH, "%s-%d" % (tag, os.getpid()))
    if os.path.exists(d):
        shutil.rmtree(d)
    os.makedirs(d)
    for sub in ("src", "include"):
        shutil.copytree(os.path.join(facts.REPO, sub), os.path.join(d, sub))
    return d


def remove(d):
    shutil.rmtree(d, ignore_errors=True)


def apply_edit(d, edit):
    """edit: {file, old, new[, count]} exact-text replacement, must match."""
    p = os.path.join(d, edit["file"])
    with open(p) as f:
        s = f.read()
    n = s.count(edit["old"])
    want = edit.get("count", 1)
    if n != want:
        raise facts.AnalysisBroken("selftest edit does not apply to %s: %d matches of %r (want %d)"
                                   % (edit["file"], n, edit["old"][:60], want))
    s = s.replace(edit["old"], edit["new"])
    with open(p, "w") as f:
        f.write(s)


def apply_patch(d, patch):
    r = subprocess.run(["patch", "-p1", "-s", "-d", d, "-i", patch], stdout=subprocess.PIPE,
                       stderr=subprocess.STDOUT)
    if r.returncode != 0:
        raise facts.AnalysisBroken("patch %s does not apply: %s" % (patch, r.stdout.decode()[-500:]))


def run_check(pid, d, tier="quick"):
    env = dict(os.environ)
    env["VERIF_NO_EVIDENCE"] = "1"
    r = subprocess.run([sys.executable, os.path.join(facts.VERIF, "check"), pid, "--tier", tier, "--repo", d],
                       stdout=subprocess.PIPE, stderr=subprocess.STDOUT, env=env)
    return r.returncode, r.stdout.decode(errors="replace")


def battery(pid, verbose=True):
    """Run every registered mutant / benign edit of property pid.
    Returns (results, failures)."""
    spec_p = os.path.join(facts.VERIF, "selftest", pid + ".json")
    if not os.path.exists(spec_p):
        return [], []
    with open(spec_p) as f:
        spec = json.load(f)
    results, failures = [], []
    jobs = []
    for kind in ("mutants", "benign"):
        for m in spec.get(kind, []):
            jobs.append((kind, m))

    def one(job):
        kind, m = job
        d = make("%s-%s" % (pid, m["name"]))
        try:
            for e in m.get("edits", []):
                apply_edit(d, e)
            if m.get("patch"):
                apply_patch(d, os.path.join(facts.VERIF, m["patch"]))
            for e in m.get("post_edits", []):       # edits of the refactored text
                apply_edit(d, e)
            rc, out = run_check(pid, d)
        except facts.AnalysisBroken as e:
            rc, out = 2, str(e)
        finally:
            remove(d)
        return rc, out

    from concurrent.futures import ThreadPoolExecutor
    with ThreadPoolExecutor(max_workers=4) as ex:
        outs = list(ex.map(one, jobs))
    for (kind, m), (rc, out) in zip(jobs, outs):
        if kind == "mutants":
            ok = rc == 1 and all(x in out for x in m.get("expect", []))
        else:
            ok = rc == 0
        results.append(dict(kind=kind, name=m["name"], rc=rc, ok=ok, expect=m.get("expect", []),
                            what=m.get("what", "")))
        if not ok:
            failures.append("%s %s: rc=%d, expected %s\n%s" % (kind, m["name"], rc,
                                                               m.get("expect", "silence"), out[-1500:]))
        if verbose:
            print("  selftest %-7s %-40s rc=%d %s" % (kind, m["name"], rc, "ok" if ok else "FAILED"))
    return results, failures
