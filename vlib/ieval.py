"""Evaluation of side-effect-free integer expressions of the AST for a given
assignment of their free inputs (finite-domain enumeration: all 256 values of a
character, all orderings of three addresses, ...).  C integer conversion rules
are followed through the types clang recorded on every node.  No libtins code
is run."""
from . import facts
from .facts import strip


class Unknown(Exception):
    pass


def wrap(v, t):
    if not t or t.get("k") not in ("int", "bool", "enum") or not t.get("w"):
        return v
    if t.get("k") == "bool":
        return 1 if v else 0
    w = t["w"]
    v &= (1 << w) - 1
    if t.get("sg") and v >= (1 << (w - 1)):
        v -= 1 << w
    return v


def ev(f, e, env, locals_=None, depth=0):
    """env: {var id or special key: int}; special key "__input__" = value of the designated input expression,
    recognised by env["__is_input__"](node)."""
    if depth > 60:
        raise Unknown("too deep")
    isin = env.get("__is_input__")
    if isin is not None and isin(e):
        return wrap(env["__input__"], facts.ty(f, e))
    k = e["k"]
    c = e.get("c", [])
    t = facts.ty(f, e)
    tf = env.get("__termfn__")
    if tf is not None:
        tv = tf(e)
        if tv is not None:
            return wrap(tv, t)
    if k == "MemberExpr" and e.get("isfield") and c and env.get("__db__") is not None:
        # bit-field / member of a record-valued term
        base = ev(f, c[0], env, locals_, depth + 1)
        r = env["__db__"].records.get(e.get("mrec"))
        fl = [x for x in (r or {}).get("fields", []) if x["name"] == e.get("member")]
        if not fl:
            raise Unknown("field %s" % e.get("member"))
        w = fl[0].get("bitw") or fl[0]["bits"]
        return wrap((base >> fl[0]["off"]) & ((1 << w) - 1), t)
    if k in ("CXXConstructExpr", "CXXTemporaryObjectExpr") and len(c) == 1:
        return ev(f, c[0], env, locals_, depth + 1)
    if k in ("ParenExpr", "ExprWithCleanups", "MaterializeTemporaryExpr", "CXXBindTemporaryExpr", "ConstantExpr"):
        return ev(f, c[0], env, locals_, depth + 1)
    if k in ("ImplicitCastExpr", "CStyleCastExpr", "CXXStaticCastExpr", "CXXFunctionalCastExpr"):
        v = ev(f, c[0], env, locals_, depth + 1)
        return wrap(v, t)
    if "v" in e and k not in ("DeclRefExpr",):
        v = e["v"]
        return int(v) if isinstance(v, str) else v
    if k in ("IntegerLiteral", "CharacterLiteral", "CXXBoolLiteralExpr"):
        return e.get("v", 0)
    if k == "DeclRefExpr":
        var = e.get("var")
        if var in env:
            return wrap(env[var], t)
        if "v" in e:
            return e["v"]
        if locals_ and var in locals_:
            return wrap(ev(f, locals_[var], env, locals_, depth + 1), t)
        raise Unknown("free variable %s" % e.get("name"))
    if k == "BinaryOperator":
        op = e["op"]
        if op == "&&":
            return 1 if (ev(f, c[0], env, locals_, depth + 1) and ev(f, c[1], env, locals_, depth + 1)) else 0
        if op == "||":
            return 1 if (ev(f, c[0], env, locals_, depth + 1) or ev(f, c[1], env, locals_, depth + 1)) else 0
        a = ev(f, c[0], env, locals_, depth + 1)
        b = ev(f, c[1], env, locals_, depth + 1)
        if op == "+":
            r = a + b
        elif op == "-":
            r = a - b
        elif op == "*":
            r = a * b
        elif op == "/":
            if b == 0:
                raise Unknown("division by zero")
            r = int(a / b)
        elif op == "%":
            if b == 0:
                raise Unknown("division by zero")
            r = a - int(a / b) * b
        elif op == "&":
            r = a & b
        elif op == "|":
            r = a | b
        elif op == "^":
            r = a ^ b
        elif op == "<<":
            r = a << b
        elif op == ">>":
            r = a >> b
        elif op == "<":
            return 1 if a < b else 0
        elif op == ">":
            return 1 if a > b else 0
        elif op == "<=":
            return 1 if a <= b else 0
        elif op == ">=":
            return 1 if a >= b else 0
        elif op == "==":
            return 1 if a == b else 0
        elif op == "!=":
            return 1 if a != b else 0
        else:
            raise Unknown("operator %s" % op)
        return wrap(r, t)
    if k == "UnaryOperator":
        a = ev(f, c[0], env, locals_, depth + 1)
        op = e["op"]
        if op == "-":
            return wrap(-a, t)
        if op == "~":
            return wrap(~a, t)
        if op == "!":
            return 0 if a else 1
        if op == "+":
            return a
        raise Unknown("unary %s" % op)
    if k == "ConditionalOperator":
        return ev(f, c[1], env, locals_, depth + 1) if ev(f, c[0], env, locals_, depth + 1) else ev(f, c[2], env, locals_, depth + 1)
    if k == "CallExpr" and e.get("cname") == "__builtin_expect":
        return ev(f, c[1], env, locals_, depth + 1)
    raise Unknown("expression kind %s `%s`" % (k, facts.expr_str(e)[:60]))
