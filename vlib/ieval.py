"""Evaluation of side-effect-free integer expressions of the AST for a given
assignment of their free inputs (finite-domain enumeration: all 256 values of a
character, all orderings of three addresses, ...).  C integer conversion rules
are followed through the types clang recorded on every node.  No libtins code
is run."""
from . import facts
from .facts import strip


class Unknown(Exception):
    pass


class Undefined(Unknown):
    """the expression has undefined behaviour for this input (shift count out of range)"""
    pass


def wrap(v, t):
    if not t or t.get("k") not in ("int", "bool", "enum") or not t.get("w"):
        return v
    if t.get("k") == "bool":
        return 1 if v else 0
    w = t["w"]
    v &= (1 << w) - 1
    if t.get("sg") and v >= (1 << (w - 1)):
        v -= 1 << w
    return v


def ev(f, e, env, locals_=None, depth=0):
    """env: {var id or special key: int}; special key "__input__" = value of the designated input expression,
    recognised by env["__is_input__"](node)."""
    if depth > 60:
        raise Unknown("too deep")
    isin = env.get("__is_input__")
    if isin is not None and isin(e):
        return wrap(env["__input__"], facts.ty(f, e))
    k = e["k"]
    c = e.get("c", [])
    t = facts.ty(f, e)
    tf = env.get("__termfn__")
    if tf is not None:
        tv = tf(e)
        if tv is not None:
            return wrap(tv, t)
    tf2 = env.get("__termfn2__")      # as __termfn__, but receives the environment in force (locals included)
    if tf2 is not None:
        tv = tf2(e, env)
        if tv is not None:
            return wrap(tv, t)
    if k == "ArraySubscriptExpr" and len(c) == 2:
        # TABLE[i] of a constant character table (a local / global `static const char t[] = "...";`)
        base = facts.strip_all(c[0])
        init = None
        if base["k"] == "DeclRefExpr" and base.get("var"):
            gl = None
            if base.get("glob"):
                db_ = env.get("__db__") or facts.db_of(f)
                gl = db_.globals.get(base["var"]) if db_ is not None else None
                init = (gl or {}).get("init") if (gl or {}).get("const") else None
            if gl is None:          # a local (function-level statics have global storage but live in the function)
                for n_ in facts.fn_nodes(f):
                    if n_["k"] == "VarDecl" and n_.get("var") == base["var"] and n_.get("c"):
                        init = n_["c"][0]
                    if n_["k"] in ("BinaryOperator", "CompoundAssignOperator") and n_.get("op", "").endswith("=") and \
                            n_["op"] not in ("==", "!=", "<=", ">=") and any(
                                y["k"] == "DeclRefExpr" and y.get("var") == base["var"] for y in facts.walk(n_["c"][0])):
                        raise Unknown("table %s is written to" % base.get("name"))
        elif base["k"] == "StringLiteral":
            init = base
        i0 = facts.strip_all(init) if init is not None else None
        if i0 is not None and i0["k"] == "StringLiteral" and isinstance(i0.get("str"), str):
            i_ = ev(f, c[1], env, locals_, depth + 1)
            txt = i0["str"]
            if i_ == len(txt):
                return 0
            if not (0 <= i_ < len(txt)):
                raise Undefined("index %d outside the %d-character table %s" % (i_, len(txt), base.get("name")))
            return wrap(ord(txt[i_]), t)
    if k == "MemberExpr" and e.get("isfield") and c and strip(c[0])["k"] == "ArraySubscriptExpr":
        # ARR[i].field of a constant global array of records
        sub = strip(c[0])
        base = facts.strip_all(sub["c"][0])
        db_ = env.get("__db__") or facts.db_of(f)
        gl = db_.globals.get(base.get("var")) if (db_ is not None and base["k"] == "DeclRefExpr" and base.get("glob")) else None
        if gl is not None and gl.get("const") and (gl.get("init") or {}).get("k") == "InitListExpr":
            i_ = ev(f, sub["c"][1], env, locals_, depth + 1)
            rows = gl["init"].get("c", [])
            if not (0 <= i_ < len(rows)):
                raise Undefined("index %d outside the %d-element array %s" % (i_, len(rows), base.get("name")))
            row = rows[i_]
            rec = db_.records.get(e.get("mrec")) or {}
            names = [x["name"] for x in rec.get("fields", [])]
            if e.get("member") in names and row.get("k") == "InitListExpr" and names.index(e["member"]) < len(row.get("c", [])):
                cell = row["c"][names.index(e["member"])]
                v_ = facts.cval(cell)
                if v_ is not None:
                    return wrap(int(v_), t)
            raise Unknown("element %s of %s" % (e.get("member"), base.get("name")))
    if k == "MemberExpr" and e.get("isfield") and c and env.get("__db__") is not None:
        # bit-field / member of a record-valued term
        base = ev(f, c[0], env, locals_, depth + 1)
        r = env["__db__"].records.get(e.get("mrec"))
        fl = [x for x in (r or {}).get("fields", []) if x["name"] == e.get("member")]
        if not fl:
            raise Unknown("field %s" % e.get("member"))
        w = fl[0].get("bitw") or fl[0]["bits"]
        return wrap((base >> fl[0]["off"]) & ((1 << w) - 1), t)
    if k in ("CXXConstructExpr", "CXXTemporaryObjectExpr") and len(c) == 1:
        return ev(f, c[0], env, locals_, depth + 1)
    if k in ("ParenExpr", "ExprWithCleanups", "MaterializeTemporaryExpr", "CXXBindTemporaryExpr", "ConstantExpr"):
        return ev(f, c[0], env, locals_, depth + 1)
    if k in ("ImplicitCastExpr", "CStyleCastExpr", "CXXStaticCastExpr", "CXXFunctionalCastExpr"):
        if "v" in e and c and strip(c[0])["k"] == "DeclRefExpr" and strip(c[0]).get("var") not in env:
            # a constant the front end already folded (static const member, constexpr): the cast node carries its value
            v = e["v"]
            return int(v) if isinstance(v, str) else v
        v = ev(f, c[0], env, locals_, depth + 1)
        return wrap(v, t)
    if "v" in e and k not in ("DeclRefExpr",):
        v = e["v"]
        return int(v) if isinstance(v, str) else v
    if k in ("IntegerLiteral", "CharacterLiteral", "CXXBoolLiteralExpr"):
        return e.get("v", 0)
    if k == "DeclRefExpr":
        var = e.get("var")
        if var in env:
            return wrap(env[var], t)
        if "v" in e:
            return e["v"]
        if e.get("glob"):
            db_ = env.get("__db__") or facts.db_of(f)
            gl = db_.globals.get(var) if db_ is not None else None
            if gl is not None and gl.get("const") and (gl.get("init") or {}).get("v") is not None:
                return wrap(int(gl["init"]["v"]), t)
        if locals_ and var in locals_:
            return wrap(ev(f, locals_[var], env, locals_, depth + 1), t)
        raise Unknown("free variable %s" % e.get("name"))
    if k == "BinaryOperator":
        op = e["op"]
        if op == "&&":
            return 1 if (ev(f, c[0], env, locals_, depth + 1) and ev(f, c[1], env, locals_, depth + 1)) else 0
        if op == "||":
            return 1 if (ev(f, c[0], env, locals_, depth + 1) or ev(f, c[1], env, locals_, depth + 1)) else 0
        a = ev(f, c[0], env, locals_, depth + 1)
        b = ev(f, c[1], env, locals_, depth + 1)
        if op == "+":
            r = a + b
        elif op == "-":
            r = a - b
        elif op == "*":
            r = a * b
        elif op == "/":
            if b == 0:
                raise Unknown("division by zero")
            r = int(a / b)
        elif op == "%":
            if b == 0:
                raise Unknown("division by zero")
            r = a - int(a / b) * b
        elif op == "&":
            r = a & b
        elif op == "|":
            r = a | b
        elif op == "^":
            r = a ^ b
        elif op in ("<<", ">>"):
            w_ = (t or {}).get("w") or 32
            if b < 0 or b >= w_:
                raise Undefined("`%s` shifts a %d-bit value by %d" % (facts.expr_str(e)[:60], w_, b))
            r = (a << b) if op == "<<" else (a >> b)
        elif op == "<":
            return 1 if a < b else 0
        elif op == ">":
            return 1 if a > b else 0
        elif op == "<=":
            return 1 if a <= b else 0
        elif op == ">=":
            return 1 if a >= b else 0
        elif op == "==":
            return 1 if a == b else 0
        elif op == "!=":
            return 1 if a != b else 0
        else:
            raise Unknown("operator %s" % op)
        return wrap(r, t)
    if k == "UnaryOperator":
        a = ev(f, c[0], env, locals_, depth + 1)
        op = e["op"]
        if op == "-":
            return wrap(-a, t)
        if op == "~":
            return wrap(~a, t)
        if op == "!":
            return 0 if a else 1
        if op == "+":
            return a
        raise Unknown("unary %s" % op)
    if k == "ConditionalOperator":
        return ev(f, c[1], env, locals_, depth + 1) if ev(f, c[0], env, locals_, depth + 1) else ev(f, c[2], env, locals_, depth + 1)
    if k == "CallExpr" and e.get("cname") == "__builtin_expect":
        return ev(f, c[1], env, locals_, depth + 1)
    if k == "CallExpr" and e.get("callee") and not e.get("ext") and depth < 40:
        # a pure integer helper of the library (`int from_hex_digit(char c)`): executed on the argument values
        db = env.get("__db__") or facts.db_of(f)
        h = db.fn(e["callee"]) if db is not None else None
        if h is not None and h.get("body") and not h.get("rec") and len(h.get("params", ())) == len(c) - 1 and \
                ((facts.tyi(h, h.get("ret")) or {}).get("k") in ("int", "bool", "enum") or
                 ((facts.tyi(h, h.get("ret")) or {}).get("k") == "rec" and env.get("__termfn2__") is not None)):
            # (a record returned by value is whatever __termfn2__ makes of the returned expression; "__fn__" tells it which
            # function's nodes it is looking at)
            henv = dict((k_, v_) for k_, v_ in env.items() if isinstance(k_, str) and k_.startswith("__") and k_ not in ("__is_input__", "__input__", "__termfn__"))
            for p_, a_ in zip(h["params"], c[1:]):
                pt = facts.tyi(h, p_.get("t")) or {}
                if pt.get("k") not in ("int", "bool", "enum"):
                    if env.get("__termfn2__") is not None and pt.get("k") in ("ref", "ptr"):
                        # an object handed on by reference: what is read from it is served by __termfn2__; when the caller's
                        # __termfn2__ gives the object itself a value (an abstract key member) the parameter stands for it
                        try:
                            henv[p_["var"]] = ev(f, a_, env, locals_, depth + 1)
                        except Unknown:
                            pass
                        continue
                    raise Unknown("call %s with a non-integer argument" % e.get("cname"))
                henv[p_["var"]] = wrap(ev(f, a_, env, locals_, depth + 1), pt)
            henv["__fn__"] = h
            r = run_body(h, h["body"], henv)
            if r is None:
                raise Unknown("call %s returned no value" % e.get("cname"))
            return wrap(r, t)
    raise Unknown("expression kind %s `%s`" % (k, facts.expr_str(e)[:60]))


class _Return(Exception):
    def __init__(self, v):
        self.v = v


class _Continue(Exception):
    pass


class _Break(Exception):
    pass


def run_body(f, body, env, max_steps=2000):
    """Finite evaluation of a loop-free function body made of declarations of
    integer locals, assignments to them, if / switch / break / return.  `env`
    as for ev(); integer locals live in a private copy.  Returns the value of
    the executed `return` (None for a bare return or fall-off).  Anything else
    raises Unknown."""
    st = dict(env)
    try:
        _run(f, body, st)
    except _Return as r:
        return r.v
    return None


def _flat_cases(body):
    """statements of a switch body with labels unrolled into ('case', v) / ('default',) markers"""
    out = []
    for s in body.get("c", []) if body["k"] == "CompoundStmt" else [body]:
        inner = s
        while inner is not None and inner["k"] in ("CaseStmt", "DefaultStmt"):
            if inner["k"] == "CaseStmt":
                out.append(("case", facts.cval(inner["c"][0])))
            else:
                out.append(("default",))
            inner = inner["c"][-1] if inner.get("c") else None
        if inner is not None:
            out.append(("stmt", inner))
    return out


def _run(f, s, st):
    if s is None:
        return
    k = s["k"]
    if k == "CompoundStmt":
        for x in s.get("c", []):
            _run(f, x, st)
    elif k == "NullStmt":
        return
    elif k == "DeclStmt":
        for d in s.get("c", []):
            if d["k"] != "VarDecl":
                continue
            t = facts.tyi(f, d.get("t")) or {}
            if t.get("k") in ("int", "bool", "enum"):
                if d.get("c"):
                    st[d["var"]] = wrap(ev(f, d["c"][0], st), t)
            elif t.get("k") in ("ptr", "ref"):
                continue        # pointer locals are seen through the term function
            else:
                raise Unknown("local of type %s" % t.get("k"))
    elif k == "IfStmt":
        real = [x for x in s["c"] if x is not None]
        if ev(f, real[0], st):
            _run(f, real[1], st)
        elif len(real) > 2:
            _run(f, real[2], st)
    elif k == "ReturnStmt":
        raise _Return(ev(f, s["c"][0], st) if s.get("c") else None)
    elif k == "BreakStmt":
        raise _Break()
    elif k == "SwitchStmt":
        real = [x for x in s["c"] if x is not None]
        v = ev(f, real[0], st)
        items = _flat_cases(real[-1])
        start = None
        for i, it in enumerate(items):
            if it[0] == "case" and it[1] is not None and int(it[1]) == v:
                start = i
                break
        if start is None:
            for i, it in enumerate(items):
                if it[0] == "default":
                    start = i
                    break
        if start is None:
            return
        try:
            for it in items[start:]:
                if it[0] == "stmt":
                    _run(f, it[1], st)
        except _Break:
            pass
    elif k == "BinaryOperator" and s.get("op") == "=":
        lhs = strip(s["c"][0])
        if lhs["k"] != "DeclRefExpr" or not lhs.get("var"):
            raise Unknown("assignment to %s" % facts.expr_str(lhs))
        st[lhs["var"]] = wrap(ev(f, s["c"][1], st), facts.ty(f, lhs))
    elif k in ("ExprWithCleanups",):
        _run(f, s["c"][0], st)
    elif k in ("ForStmt", "WhileStmt"):
        # concrete execution of a counting loop (all state is integer-valued here): bounded number of iterations
        parts = s.get("c", [])
        if k == "ForStmt":
            init, cnd, inc, body = parts[0], parts[-3] if len(parts) >= 4 else None, parts[-2], parts[-1]
        else:
            init, cnd, inc, body = None, [x for x in parts[:-1] if x is not None][-1], None, parts[-1]
        if init is not None:
            _run(f, init, st)
        n_it = 0
        while cnd is None or ev(f, cnd, st):
            n_it += 1
            if n_it > 4096:
                raise Unknown("loop does not end within 4096 iterations")
            try:
                _run(f, body, st)
            except _Break:
                break
            except _Continue:
                pass
            if inc is not None:
                _run(f, inc, st)
    elif k == "ContinueStmt":
        raise _Continue()
    elif k == "UnaryOperator" and s.get("op") in ("++", "--"):
        lhs = strip(s["c"][0])
        if lhs["k"] != "DeclRefExpr" or lhs.get("var") not in st:
            raise Unknown("step of %s" % facts.expr_str(lhs))
        st[lhs["var"]] = wrap(st[lhs["var"]] + (1 if s["op"] == "++" else -1), facts.ty(f, lhs))
    elif k == "CompoundAssignOperator" and s.get("op") in ("+=", "-="):
        lhs = strip(s["c"][0])
        if lhs["k"] != "DeclRefExpr" or lhs.get("var") not in st:
            raise Unknown("update of %s" % facts.expr_str(lhs))
        d_ = ev(f, s["c"][1], st)
        st[lhs["var"]] = wrap(st[lhs["var"]] + (d_ if s["op"] == "+=" else -d_), facts.ty(f, lhs))
    else:
        raise Unknown("statement kind %s" % k)


class _Stop(Exception):
    pass


def trace(f, body, env, max_items=200, final=None, on_effect=None):
    """Execute a loop-free statement tree under env (as run_body) and return the list of 'effect' statements met, in order,
    as (kind, node): kind in call / assign / break / return / throw / other.  Conditions are evaluated with ev(); integer
    locals declared on the way join the environment.  Stops at the first break / return / throw."""
    out = []
    st = dict(env)

    def go(s):
        if s is None:
            return
        if len(out) > max_items:
            raise Unknown("too many statements")
        k = s["k"]
        if k == "CompoundStmt":
            for x in s.get("c", []):
                go(x)
        elif k == "DeclStmt":
            for d in s.get("c", []):
                if d["k"] == "VarDecl" and d.get("c"):
                    t = facts.tyi(f, d.get("t")) or {}
                    if t.get("k") in ("int", "bool", "enum"):
                        try:
                            st[d["var"]] = wrap(ev(f, d["c"][0], st), t)
                        except Unknown:
                            out.append(("other", d))
                    else:
                        out.append(("other", d))
        elif k == "IfStmt":
            real = [x for x in s["c"] if x is not None]
            if ev(f, real[0], st):
                go(real[1])
            elif len(real) > 2:
                go(real[2])
        elif k == "SwitchStmt":
            real = [x for x in s["c"] if x is not None]
            v = ev(f, real[0], st)
            items = _flat_cases(real[-1])
            start = None
            for i, it in enumerate(items):
                if it[0] == "case" and it[1] is not None and int(it[1]) == v:
                    start = i
                    break
            if start is None:
                for i, it in enumerate(items):
                    if it[0] == "default":
                        start = i
                        break
            if start is not None:
                try:
                    for it in items[start:]:
                        if it[0] == "stmt":
                            if it[1]["k"] == "BreakStmt":
                                raise _Break()
                            go(it[1])
                except _Break:
                    pass
        elif k == "BreakStmt":
            out.append(("break", s))
            raise _Stop()
        elif k == "ReturnStmt":
            out.append(("return", s))
            raise _Stop()
        elif k == "CXXThrowExpr" or (k == "ExprWithCleanups" and s.get("c") and s["c"][0]["k"] == "CXXThrowExpr"):
            out.append(("throw", s))
            raise _Stop()
        elif k in ("CallExpr", "CXXMemberCallExpr", "CXXOperatorCallExpr", "ExprWithCleanups"):
            out.append(("call", s))
            if on_effect is not None:
                on_effect("call", s, st)        # lets the caller update the state it serves through __termfn2__
        elif k in ("BinaryOperator", "CompoundAssignOperator", "UnaryOperator"):
            lhs = strip(s["c"][0]) if s.get("c") else None
            if k == "BinaryOperator" and s.get("op") == "=" and lhs is not None and lhs["k"] == "DeclRefExpr" and lhs.get("var"):
                try:
                    st[lhs["var"]] = wrap(ev(f, s["c"][1], st), facts.ty(f, lhs))
                except Unknown:
                    pass
            elif k == "CompoundAssignOperator" and lhs is not None and lhs["k"] == "DeclRefExpr" and lhs.get("var") in st:
                try:
                    b = ev(f, s["c"][1], st)
                    a = st[lhs["var"]]
                    st[lhs["var"]] = wrap({"+=": a + b, "-=": a - b}.get(s.get("op"), a), facts.ty(f, lhs))
                except Unknown:
                    pass
            out.append(("assign", s))
        else:
            out.append(("other", s))
    try:
        go(body)
    except _Stop:
        pass
    if final is not None:
        final.update(st)
    return out
