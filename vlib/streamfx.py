"""E-STREAMFX: symbolic size forms of serialisers and size functions.

A *form* is  k + sum(coef * atom) + sum([cond] * form) + sum(coef * SUM(container, per-element form)).
Atoms are canonical texts of opaque size expressions (`vend_.size()`, `$e.data_size()`, `pad4{...}`); conditions are
kept as AST nodes with their frame so that they can be evaluated on a finite partition of the values of the *terms*
they test (vlib.ieval).  Two forms are compared cell by cell of that partition: inside one cell every condition has a
definite truth value and both sides flatten to linear forms.

Walked with the same executor: (a) integer-valued size functions (header_size, trailer_size, calculate_*_size ...):
locals are forms, `x += e` under ifs and container loops become guarded / SUM terms, the returned form is the
summary; (b) serialisers: an OutputMemoryStream is a cursor whose advance is accumulated the same way
(write<T> -> sizeof(T), write(p, n) -> n, fill(n) -> n, skip(n) -> n), helpers receiving the stream are inlined, a skip of the
inner layer's size splits header bytes from trailer bytes.  Nothing is executed.
"""
from . import facts, ieval
from .facts import strip

MAX_INLINE = 6


class Opaque(Exception):
    pass


# --------------------------------------------------------------------------- forms
class Form(object):
    __slots__ = ("k", "atoms", "whens", "sums", "notes")

    def __init__(self, k=0, atoms=None, whens=None, sums=None):
        self.k = k
        self.atoms = dict(atoms or {})
        self.whens = list(whens or [])      # (Cond, Form)
        self.sums = list(sums or [])        # (coef, container text, Form)
        self.notes = []

    def copy(self):
        return Form(self.k, self.atoms, self.whens, self.sums)

    def __add__(self, o):
        if isinstance(o, int):
            r = self.copy()
            r.k += o
            return r
        r = self.copy()
        r.k += o.k
        for a, c in o.atoms.items():
            r.atoms[a] = r.atoms.get(a, 0) + c
            if r.atoms[a] == 0:
                del r.atoms[a]
        r.whens = merge_whens(r.whens + o.whens)
        r.sums = merge_sums(r.sums + o.sums)
        return r

    def scale(self, m):
        if m == 0:
            return Form()
        return Form(self.k * m, dict((a, c * m) for a, c in self.atoms.items()),
                    [(c, f.scale(m)) for c, f in self.whens], [(co * m, ct, f) for co, ct, f in self.sums])

    def __sub__(self, o):
        if isinstance(o, int):
            return self + (-o)
        return self + o.scale(-1)

    def is_zero(self):
        return self.k == 0 and not self.atoms and not self.whens and not self.sums

    def is_const(self):
        return not self.atoms and not self.whens and not self.sums

    def canon(self):
        parts = []
        if self.k:
            parts.append(str(self.k))
        for a, c in sorted(self.atoms.items()):
            parts.append(a if c == 1 else "%d*%s" % (c, a))
        for c, f in sorted(self.whens, key=lambda x: x[0].key):
            parts.append("[%s]{%s}" % (c.key, f.canon()))
        for co, ct, f in sorted(self.sums, key=lambda x: (x[1], x[2].canon())):
            parts.append("%sSUM(%s: %s)" % ("" if co == 1 else "%d*" % co, ct, f.canon()))
        return " + ".join(parts) if parts else "0"

    def __eq__(self, o):
        return isinstance(o, Form) and self.canon() == o.canon()

    def __ne__(self, o):
        return not self.__eq__(o)

    def __hash__(self):
        return hash(self.canon())

    def __repr__(self):
        return self.canon()


def merge_whens(ws):
    out = {}
    order = []
    for c, f in ws:
        if c.key in out:
            out[c.key] = (c, out[c.key][1] + f)
        else:
            out[c.key] = (c, f)
            order.append(c.key)
    return [out[k] for k in order if not out[k][1].is_zero()]


def merge_sums(ss):
    out = {}
    order = []
    for co, ct, f in ss:
        key = (ct, f.canon())
        if key in out:
            out[key] = (out[key][0] + co, ct, f)
        else:
            out[key] = (co, ct, f)
            order.append(key)
    return [out[k] for k in order if out[k][0] != 0]


def const(k):
    return Form(k)


def atom(a):
    return Form(0, {a: 1})


class Cond(object):
    """a condition node in its frame; key = canonical text"""
    __slots__ = ("ctx", "node", "key", "alias", "forms", "callforms")

    def __init__(self, ctx, node):
        # a named bool local (`const bool single = !a && b;  if (!single)`) is the test it was initialised with
        node = facts.inline_locals(ctx.f, node, kinds=("bool",))
        self.ctx, self.node = ctx, node
        self.alias = dict(ctx.alias)
        self.forms = dict(ctx.forms)
        self.callforms = {}
        self.key = ctx.txt(node)
        # calls of the object's own size functions inside the condition are summarised now
        for x in facts.walk(node):
            if x["k"] == "CXXMemberCallExpr" and x.get("id") not in ctx.subst:
                try:
                    fm = ctx.fx.call_form(ctx, x)
                except Opaque:
                    fm = None
                fsx = ctx.fx.db.functions.get(x.get("callee")) or {}
                rtx = facts.tyi(fsx, fsx.get("ret")) if fsx else None
                if fm is not None and (rtx or {}).get("k") == "int" and (fm.whens or fm.sums or fm.is_const()):
                    self.callforms[x["id"]] = fm

    def txt(self, e):
        ctx = self.ctx
        sa, sf = ctx.alias, ctx.forms
        ctx.alias, ctx.forms = self.alias, self.forms
        try:
            return ctx.txt(e)
        finally:
            ctx.alias, ctx.forms = sa, sf

    def __repr__(self):
        return self.key


def when(c, f):
    if f.is_zero():
        return Form()
    return Form(0, None, [(c, f)])


# --------------------------------------------------------------------------- frames / printing
class Ctx(object):
    """one (possibly inlined) function activation"""

    def __init__(self, fx, f, alias=None, this_txt="", depth=0, cls=None):
        self.fx, self.f = fx, f
        self.alias = dict(alias or {})       # var id -> canonical text
        self.forms = {}                      # var id -> Form (integer locals / params)
        self.streams = {}                    # var id -> stream name
        self.this_txt = this_txt
        self.depth = depth
        self.cls = cls
        self.locals_init = {}
        for n in facts.fn_nodes(f):
            if n["k"] == "VarDecl" and n.get("c"):
                self.locals_init[n["var"]] = n["c"][0]
        self.subst = {}
        self.ptrs = set()
        self.assigned = set()
        for n in facts.fn_nodes(f):
            if n["k"] in ("BinaryOperator", "CompoundAssignOperator") and n.get("op", "").endswith("=") and n.get("op") not in ("==", "!=", "<=", ">="):
                t = strip(n["c"][0])
                if t["k"] == "DeclRefExpr":
                    self.assigned.add(t.get("var"))
            if n["k"] == "UnaryOperator" and n.get("op") in ("++", "--"):
                t = strip(n["c"][0])
                if t["k"] == "DeclRefExpr":
                    self.assigned.add(t.get("var"))

    def txt(self, n):
        return self.fx.txt(self, n)


class Fx(object):
    def __init__(self, db, cls=None):
        self.db = db
        self.cls = cls
        self.pad_cache = {}
        self.registry = {}       # pad atom text -> inner Form
        self.trace = []
        self.oplog = []          # (stream, op, member text or None, Form amount, line, exact op, const value, kind, guards)
        self.condstack = []      # [(Cond, polarity)] of the branches being executed
        self.rawlog = []         # raw writes through pointers: (callee name, dest offset Form, length Form or None, guards, node, ctx)
        self.reader = {}         # stream name -> True for InputMemoryStream

    # ---- canonical text
    def txt(self, ctx, n, d=0):
        if n is None or d > 40:
            return "?"
        k = n["k"]
        c = n.get("c", [])
        if n.get("id") in ctx.subst:
            c2, n2 = ctx.subst[n["id"]]
            return self.txt(c2, n2, d + 1)
        if k in ("ParenExpr", "ImplicitCastExpr", "MaterializeTemporaryExpr", "CXXBindTemporaryExpr", "ExprWithCleanups",
                 "CStyleCastExpr", "CXXStaticCastExpr", "CXXFunctionalCastExpr", "CXXConstCastExpr", "ConstantExpr",
                 "SubstNonTypeTemplateParmExpr") and c:
            return self.txt(ctx, c[0], d + 1)
        v = facts.cval(n)
        if v is not None and k != "DeclRefExpr":
            return str(int(v))
        if k == "DeclRefExpr":
            var = n.get("var")
            if var in ctx.alias:
                return ctx.alias[var]
            if "v" in n:
                return str(int(n["v"]))
            if n.get("parm") and var in ctx.forms and ctx.forms[var].is_const():
                return str(ctx.forms[var].k)
            if var in ctx.locals_init and var not in ctx.assigned:
                t = facts.ty(ctx.f, n) or {}
                # const locals are substituted by their initialiser
                return self.txt(ctx, ctx.locals_init[var], d + 1)
            return n.get("name", "?")
        if k == "CXXThisExpr":
            return ctx.this_txt or "this"
        if k == "MemberExpr":
            b = self.txt(ctx, c[0], d + 1) if c else "this"
            if b in ("this", ""):
                return n.get("member", "?")
            return "%s.%s" % (b, n.get("member"))
        if k == "CXXMemberCallExpr":
            me = c[0]
            while me["k"] in ("ParenExpr", "ImplicitCastExpr"):
                me = me["c"][0]
            obj = self.txt(ctx, me["c"][0], d + 1) if me.get("c") else "this"
            args = ",".join(self.txt(ctx, a, d + 1) for a in c[1:])
            nm = n.get("cname", "?")
            if nm.startswith("operator ") and not args:
                return obj      # conversion operator
            if not args and n.get("callee") in self.db.functions:
                mem = self.member_of_getter(self.db.functions[n["callee"]])
                if mem is not None:
                    return mem if obj in ("this", "") else "%s.%s" % (obj, mem)
            if obj in ("this", ""):
                return "%s(%s)" % (nm, args)
            return "%s.%s(%s)" % (obj, nm, args)
        if k == "CXXOperatorCallExpr":
            op = n.get("op")
            args = c[1:]
            if op in ("*", "->") and len(args) == 1:
                return self.txt(ctx, args[0], d + 1)
            if op == "[]" and len(args) == 2:
                return "%s[%s]" % (self.txt(ctx, args[0], d + 1), self.txt(ctx, args[1], d + 1))
            if len(args) == 2:
                return "(%s %s %s)" % (self.txt(ctx, args[0], d + 1), op, self.txt(ctx, args[1], d + 1))
            return "%s(%s)" % (op, ",".join(self.txt(ctx, a, d + 1) for a in args))
        if k == "UnaryOperator":
            op = n.get("op")
            a = self.txt(ctx, c[0], d + 1)
            if op == "*":
                return a if a.startswith("$") else "*" + a
            if n.get("postfix"):
                return a + op
            return op + a
        if k == "BinaryOperator":
            return "(%s %s %s)" % (self.txt(ctx, c[0], d + 1), n.get("op"), self.txt(ctx, c[1], d + 1))
        if k == "ConditionalOperator":
            return "(%s ? %s : %s)" % tuple(self.txt(ctx, x, d + 1) for x in c[:3])
        if k == "CallExpr":
            return "%s(%s)" % (n.get("cname", "?"), ",".join(self.txt(ctx, a, d + 1) for a in c[1:]))
        if k in ("CXXConstructExpr", "CXXTemporaryObjectExpr"):
            if len(c) == 1:
                return self.txt(ctx, c[0], d + 1)
            return "%s(%s)" % ((n.get("crec") or "?").split("::")[-1], ",".join(self.txt(ctx, a, d + 1) for a in c))
        if k == "ArraySubscriptExpr":
            return "%s[%s]" % (self.txt(ctx, c[0], d + 1), self.txt(ctx, c[1], d + 1))
        if k == "CXXDefaultArgExpr" and c:
            return self.txt(ctx, c[0], d + 1)
        return facts.expr_str(n)

    # ---- expression -> Form
    def form(self, ctx, e):
        e0 = e
        k = e["k"]
        c = e.get("c", [])
        v = facts.cval(e)
        if v is not None and k != "DeclRefExpr":
            return const(int(v))
        if k in ("ParenExpr", "ImplicitCastExpr", "MaterializeTemporaryExpr", "CXXBindTemporaryExpr", "ExprWithCleanups",
                 "CStyleCastExpr", "CXXStaticCastExpr", "CXXFunctionalCastExpr", "ConstantExpr", "SubstNonTypeTemplateParmExpr") and c:
            inner = self.form(ctx, c[0])
            # narrowing casts of a form are kept (sizes are far below 2^16 in every cell that matters; noted)
            return inner
        if k == "DeclRefExpr":
            var = e.get("var")
            if var in ctx.forms:
                return ctx.forms[var]
            if "v" in e:
                return const(int(e["v"]))
            if var in ctx.alias:
                return atom(ctx.alias[var])
            if var in ctx.locals_init and var not in ctx.assigned:
                return self.form(ctx, ctx.locals_init[var])
            return atom(self.txt(ctx, e))
        if k == "BinaryOperator":
            op = e.get("op")
            if op in ("+", "-"):
                a, b = self.form(ctx, c[0]), self.form(ctx, c[1])
                return a + b if op == "+" else a - b
            if op == "*":
                a, b = self.form(ctx, c[0]), self.form(ctx, c[1])
                if a.is_const():
                    return b.scale(a.k)
                if b.is_const():
                    return a.scale(b.k)
            if op == "<<":
                a, b = self.form(ctx, c[0]), self.form(ctx, c[1])
                if b.is_const():
                    return a.scale(1 << b.k)
            if op == ",":
                return self.form(ctx, c[1])
            return atom(self.txt(ctx, e))
        if k == "ConditionalOperator":
            a, b = self.form(ctx, c[1]), self.form(ctx, c[2])
            if a == b:
                return a
            return b + when(Cond(ctx, c[0]), a - b)
        if k in ("CXXMemberCallExpr", "CallExpr"):
            t = self.txt(ctx, e)
            if t.endswith(".size()") and getattr(self, "_env", None) is not None and ("len:" + t[:-7]) in self._env:
                return self._env["len:" + t[:-7]]
            if k == "CXXMemberCallExpr" and e.get("cname") == "pointer" and len(c) == 1 and getattr(self, "_env", None) is not None and ctx.ptrs:
                me = c[0]
                while me["k"] in ("ParenExpr", "ImplicitCastExpr"):
                    me = me["c"][0]
                ob = strip(me["c"][0]) if me.get("c") else None
                if ob is not None and ob["k"] == "DeclRefExpr" and ctx.streams.get(ob.get("var")) == "out":
                    return self._env.get("s:out", Form()) + self._env.get("t:out", Form())
            if k == "CXXMemberCallExpr" and e.get("cname") == "size" and len(c) == 1 and getattr(self, "_env", None) is not None:
                me = c[0]
                while me["k"] in ("ParenExpr", "ImplicitCastExpr"):
                    me = me["c"][0]
                ob = strip(me["c"][0]) if me.get("c") else None
                if ob is not None and ob["k"] == "DeclRefExpr" and ob.get("var") in ctx.streams:
                    nm = ctx.streams[ob["var"]]
                    tot = self._env.get("tot:" + nm)
                    if tot is not None and not self._env.get("rest:" + nm):
                        return tot - self._env.get("s:" + nm, Form()) - self._env.get("t:" + nm, Form())
            if k == "CallExpr" and e.get("cname") == "accumulate" and len(c) == 5:
                r = self.accumulate_form(ctx, e)
                if r is not None:
                    return r
            r = self.call_form(ctx, e)
            if r is not None:
                return r
            return atom(t)
        return atom(self.txt(ctx, e))

    def accumulate_form(self, ctx, e):
        """std::accumulate(C.begin(), C.end(), init, [](acc, elem) { return acc + g(elem); })  ==  init + SUM over C of g"""
        c = e["c"]

        def it_call(x):
            x = facts.strip_all(x)
            while x["k"] in ("CXXConstructExpr", "MaterializeTemporaryExpr", "CXXBindTemporaryExpr", "ImplicitCastExpr") and len(x.get("c", [])) == 1:
                x = facts.strip_all(x["c"][0])
            return x if x["k"] == "CXXMemberCallExpr" else None
        b, en = it_call(c[1]), it_call(c[2])
        if b is None or en is None or b.get("cname") not in ("begin", "cbegin") or en.get("cname") not in ("end", "cend"):
            return None
        tb, te = self.txt(ctx, b), self.txt(ctx, en)
        cont = tb.rsplit(".", 1)[0]
        if te.rsplit(".", 1)[0] != cont:
            return None
        lam = [x for x in facts.walk(c[4]) if x["k"] == "LambdaExpr" and x.get("lambda")]
        g = self.db.fn(lam[0]["lambda"]) if len(lam) == 1 else None
        if g is None or not g.get("body") or len(g.get("params", ())) != 2 or lam[0].get("c"):
            return None         # only capture-less binary lambdas
        sub = Ctx(self, g, None, ctx.this_txt, ctx.depth + 1, ctx.cls)
        sub.forms[g["params"][0]["var"]] = Form()       # the running total: the lambda's result minus it is the per-element term
        sub.alias[g["params"][1]["var"]] = "$e"
        try:
            env = self.exec_fn(sub)
        except Opaque as ex:
            self.trace.append("opaque accumulate lambda at line %s: %s" % (e.get("l"), ex))
            return None
        d = env.get("§ret")
        if d is None:
            return None
        init = self.form(ctx, c[3])
        if d.is_zero():
            return init
        if d.is_const():
            return init + atom(cont + ".size()").scale(d.k)
        return init + Form(0, None, None, [(1, cont, d)])

    # ---- calls returning sizes
    def resolve(self, ctx, n):
        callee = n.get("callee")
        if not callee:
            return None
        fs = self.db.functions.get(callee)
        cls = ctx.cls or self.cls
        if n["k"] == "CXXMemberCallExpr" and n.get("virt") and not cls:
            return None         # dynamic type unknown: the call stays symbolic
        if n["k"] == "CXXMemberCallExpr" and cls:
            me = n["c"][0]
            while me["k"] in ("ParenExpr", "ImplicitCastExpr"):
                me = me["c"][0]
            obj = me["c"][0] if me.get("c") else None
            on_this = obj is None or strip(obj)["k"] == "CXXThisExpr"
            qualified = me.get("qualified")
            if on_this and not qualified:
                nm = n.get("cname")
                ov = self.find_method(cls, nm, len(n["c"]) - 1, callee)
                if ov is not None:
                    fs = ov
        return fs

    def find_method(self, cls, name, nargs, callee_id):
        """final overrider of `name` for concrete class cls with the same parameter list as callee_id"""
        sig = callee_id[callee_id.index("("):] if "(" in callee_id else ""
        seen = set()
        work = [cls]
        while work:
            rn = work.pop(0)
            if rn in seen:
                continue
            seen.add(rn)
            r = self.db.records.get(rn)
            if r is None:
                continue
            short = rn
            cand = self.db.functions.get("%s::%s%s" % (rn, name, sig))
            if cand is not None and cand.get("body"):
                return cand
            work.extend(r.get("bases", []))
        return None

    def is_getter(self, fs):
        """`return <member>;` possibly through casts / byte-order helpers: a field read, kept as a term"""
        body = fs.get("body") or {}
        st = body.get("c", [])
        if len(st) != 1 or st[0]["k"] != "ReturnStmt" or not st[0].get("c"):
            return False
        e = st[0]["c"][0]
        while True:
            e = strip(e)
            if e["k"] in ("CStyleCastExpr", "CXXStaticCastExpr", "CXXFunctionalCastExpr", "ImplicitCastExpr", "ParenExpr",
                          "CXXConstructExpr", "MaterializeTemporaryExpr", "ExprWithCleanups", "CXXBindTemporaryExpr") and e.get("c"):
                e = e["c"][0]
                continue
            if e["k"] == "CallExpr" and (e.get("cname") or "").endswith(("_to_host", "host_to_be", "host_to_le")) and len(e["c"]) == 2:
                e = e["c"][1]
                continue
            break
        return e["k"] in ("MemberExpr", "DeclRefExpr") or facts.cval(e) is not None

    def member_of_getter(self, fs):
        """name of the member a trivial accessor returns (by reference or value, no conversion)"""
        body = fs.get("body") or {}
        st = body.get("c", [])
        if len(st) != 1 or st[0]["k"] != "ReturnStmt" or not st[0].get("c"):
            return None
        e = facts.strip_all(st[0]["c"][0])
        if e["k"] == "MemberExpr" and e.get("isfield") and e.get("c") and strip(e["c"][0])["k"] == "CXXThisExpr":
            return e.get("member")
        return None

    def call_form(self, ctx, n):
        if ctx.depth >= MAX_INLINE:
            return None
        fs = self.resolve(ctx, n)
        if fs is None or not fs.get("body"):
            return None
        rt = facts.tyi(fs, fs.get("ret")) or {}
        if rt.get("k") not in ("int", "bool", "enum"):
            return None
        if self.is_getter(fs):
            rets = [x for x in facts.fn_nodes(fs) if x["k"] == "ReturnStmt" and x.get("c")]
            if len(rets) == 1 and facts.cval(rets[0]["c"][0]) is not None:
                return const(int(facts.cval(rets[0]["c"][0])))
            return None
        if not (fs["file"].startswith("src/") or fs["file"].startswith("include/tins")):
            return None
        args = n["c"][1:]
        # round-up helper?
        if len(fs["params"]) == 1 and len(args) == 1:
            kpad = self.roundup_of(fs)
            if kpad:
                inner = self.form(ctx, args[0])
                key = "pad%d{%s}" % (kpad, inner.canon())
                self.registry[key] = (kpad, inner)
                return atom(key)
        # member of this object (or free helper): evaluate its body symbolically
        if n["k"] == "CXXMemberCallExpr":
            me = n["c"][0]
            while me["k"] in ("ParenExpr", "ImplicitCastExpr"):
                me = me["c"][0]
            obj = me["c"][0] if me.get("c") else None
            if obj is not None and strip(obj)["k"] != "CXXThisExpr":
                rets = [x for x in facts.fn_nodes(fs) if x["k"] == "ReturnStmt" and x.get("c")]
                if len(rets) == 1 and facts.cval(rets[0]["c"][0]) is not None:
                    return const(int(facts.cval(rets[0]["c"][0])))
                return None     # method of another object: opaque term
        sub = Ctx(self, fs, None, ctx.this_txt, ctx.depth + 1, ctx.cls)
        for p, a in zip(fs["params"], args):
            pt = facts.tyi(fs, p.get("t")) or {}
            if pt.get("k") in ("int", "bool", "enum"):
                sub.forms[p["var"]] = self.form(ctx, a)
            else:
                sub.alias[p["var"]] = self.txt(ctx, a)
        try:
            env = self.exec_fn(sub)
        except Opaque as ex:
            self.trace.append("opaque size function %s: %s" % (fs["id"].split("(")[0], ex))
            return None
        return env.get("§ret")

    def roundup_of(self, fs):
        key = fs["id"]
        if key in self.pad_cache:
            return self.pad_cache[key]
        res = None
        body = fs.get("body") or {}
        rets = [x for x in facts.fn_nodes(fs) if x["k"] == "ReturnStmt" and x.get("c")]
        pt = facts.tyi(fs, fs["params"][0].get("t")) or {}
        if rets and pt.get("k") == "int" and len(list(facts.fn_nodes(fs))) < 80:
            # exhaustive finite evaluation of the whole body (however its branches are spelled) on 0..514
            pv = fs["params"][0]["var"]
            try:
                vals = [ieval.run_body(fs, body, {pv: x}) for x in range(0, 515)]
                for kk in (2, 4, 8, 16):
                    if all(vals[x] == ((x + kk - 1) // kk) * kk for x in range(0, 515)):
                        res = kk
            except ieval.Unknown:
                res = None
        self.pad_cache[key] = res
        return res

    # ---- executor
    def exec_fn(self, ctx):
        env = {"§ret": None}
        env.update(("v:" + v, f) for v, f in ctx.forms.items())
        out = self.exec_list(ctx, ctx.f["body"].get("c", []), env)
        return out

    def get(self, ctx, env, var):
        return env.get("v:" + var)

    def exec_list(self, ctx, stmts, env):
        """returns env after the statements; env['§done'] marks a return/terminated path"""
        env = dict(env)
        i = 0
        while i < len(stmts):
            s = stmts[i]
            if s is None:
                i += 1
                continue
            k = s["k"]
            if k == "CompoundStmt":
                # splice: the statements after the block are its continuation
                stmts = list(stmts[:i]) + list(s.get("c", [])) + list(stmts[i + 1:])
                continue
            if k == "IfStmt":
                real = [x for x in s["c"] if x is not None]
                cnd, then = real[0], real[1]
                els = real[2] if len(real) > 2 else None
                if self.touches(ctx, then, env) or (els is not None and self.touches(ctx, els, env)):
                    self.last_written_idiom(ctx, cnd, env)
                    self.sync(ctx, env)
                    try:
                        ca = Cond(ctx, cnd)
                    finally:
                        self.unsync(ctx)
                    rest = stmts[i + 1:]
                    if has_return(then) or (els is not None and has_return(els)):
                        # a branch may leave the function: run the continuation inside both branches
                        self.condstack.append((ca, True))
                        ea = self.exec_list(ctx, [then] + rest, env)
                        self.condstack[-1] = (ca, False)
                        eb = self.exec_list(ctx, ([els] if els is not None else []) + rest, env)
                        self.condstack.pop()
                        ea["§done"] = eb["§done"] = True
                        return self.merge(ctx, ca, ea, eb, cnd)
                    self.condstack.append((ca, True))
                    ea = self.exec_list(ctx, [then], env)
                    self.condstack[-1] = (ca, False)
                    eb = self.exec_list(ctx, [els], env) if els is not None else dict(env)
                    self.condstack.pop()
                    if ea.get("§done") and not eb.get("§done"):
                        eb = self.exec_list(ctx, rest, eb)
                        return self.merge(ctx, ca, ea, eb, cnd)
                    if eb.get("§done") and not ea.get("§done"):
                        ea = self.exec_list(ctx, rest, ea)
                        return self.merge(ctx, ca, ea, eb, cnd)
                    env = self.merge(ctx, ca, ea, eb, cnd)
                    if env.get("§done"):
                        return env
                i += 1
                continue
            if k == "ReturnStmt":
                if s.get("c"):
                    rt = facts.tyi(ctx.f, ctx.f.get("ret")) or {}
                    if rt.get("k") in ("int", "bool", "enum"):
                        self.sync(ctx, env)
                        env["§ret"] = self.form(ctx, s["c"][0])
                        self.unsync(ctx)
                env["§done"] = True
                return env
            if k == "ContinueStmt":
                # ends this pass through the enclosing loop body: the rest of the body is not run on this path
                env["§done"] = True
                return env
            if k in ("ForStmt", "WhileStmt", "DoStmt", "CXXForRangeStmt"):
                env = self.loop(ctx, s, env)
                i += 1
                continue
            if k == "CXXThrowExpr" or (k == "ExprWithCleanups" and s["c"] and s["c"][0]["k"] == "CXXThrowExpr"):
                env["§done"] = True
                env["§throws"] = True
                return env
            if k == "DeclStmt":
                for v in s.get("c", []):
                    if v.get("k") != "VarDecl":
                        continue
                    self.decl(ctx, v, env)
                i += 1
                continue
            if k == "CXXTryStmt":
                env = self.exec_list(ctx, [s["c"][0]], env)
                i += 1
                continue
            if k == "SwitchStmt":
                if self.touches(ctx, s, env):
                    env = self.switch(ctx, s, env)
                    if env.get("§done"):
                        return env
                i += 1
                continue
            self.expr_stmt(ctx, s, env)
            i += 1
        return env

    def last_written_idiom(self, ctx, cnd, env):
        """`*(stream.pointer() - 1)` denotes the one-byte value just written"""
        for x in facts.walk(cnd):
            if x["k"] == "UnaryOperator" and x.get("op") == "*":
                inner = strip(x["c"][0])
                if inner["k"] == "BinaryOperator" and inner.get("op") == "-" and facts.cval(inner["c"][1]) == 1:
                    pc = strip(inner["c"][0])
                    if pc["k"] == "CXXMemberCallExpr" and pc.get("cname") == "pointer":
                        me = pc["c"][0]
                        while me["k"] in ("ParenExpr", "ImplicitCastExpr"):
                            me = me["c"][0]
                        obj = strip(me["c"][0]) if me.get("c") else None
                        if obj is not None and obj.get("var") in ctx.streams:
                            last = env.get("last:" + ctx.streams[obj["var"]])
                            if last is not None and last[2] == 1:
                                ctx.subst[x["id"]] = (last[0], last[1])
                                return
                            raise Opaque("`*(stream.pointer() - 1)` does not follow a one-byte write")

    def switch(self, ctx, s, env):
        real = [x for x in s["c"] if x is not None]
        scrut, body = real[0], real[-1]
        groups = []         # (values or None for default, statements)
        cur = None
        def open_case(lbl):
            vals, inner = [], lbl
            while inner["k"] in ("CaseStmt", "DefaultStmt"):
                if inner["k"] == "CaseStmt":
                    v = facts.cval(inner["c"][0])
                    if v is None:
                        raise Opaque("case label without constant")
                    vals.append(int(v))
                    inner = inner["c"][-1]
                else:
                    vals.append(None)
                    inner = inner["c"][-1]
            return vals, inner
        def closing_block(st):
            """`{ ...; break; }`: (True, the block without its trailing break) - an arm written as a block of its own"""
            if st["k"] == "CompoundStmt":
                kids = [x for x in st.get("c", []) if x is not None]
                if kids and kids[-1]["k"] == "BreakStmt":
                    st2 = dict(st)
                    st2["c"] = kids[:-1]
                    return True, st2
                if kids and kids[-1]["k"] == "ReturnStmt":
                    return True, st
            return False, st
        for st in body.get("c", []):
            if st["k"] in ("CaseStmt", "DefaultStmt"):
                vals, first = open_case(st)
                closed_, first = closing_block(first)
                if cur is not None and not cur[2]:
                    # fall through into this label: extend the previous group's statements too
                    cur[0].extend(vals)
                    cur[1].append(first)
                    cur[2] = closed_
                else:
                    cur = [vals, [first], closed_]
                    groups.append(cur)
            elif st["k"] == "CompoundStmt" and cur is not None and closing_block(st)[0]:
                cur[1].append(closing_block(st)[1])
                cur[2] = True
            elif st["k"] == "BreakStmt":
                if cur is not None:
                    cur[2] = True
            else:
                if cur is None:
                    raise Opaque("statement before the first case label")
                cur[1].append(st)
                if st["k"] == "ReturnStmt":
                    cur[2] = True
        allvals = [v for g in groups for v in g[0] if v is not None]
        out = None
        default_env = dict(env)
        results = []
        for vals, stmts, _closed in groups:
            stmts = [x for x in stmts if x["k"] != "BreakStmt"]
            # the arm runs under `scrutinee == label` (recorded on the operations it logs, like an if would)
            gnode = None
            for v in [v_ for v_ in vals if v_ is not None]:
                eq = {"k": "BinaryOperator", "op": "==", "id": -4000 - v, "c": [scrut, {"k": "IntegerLiteral", "v": v, "id": -5000 - v, "c": []}]}
                gnode = eq if gnode is None else {"k": "BinaryOperator", "op": "||", "id": -6000 - v, "c": [gnode, eq]}
            pushed = False
            if gnode is not None and None not in vals:
                try:
                    self.condstack.append((Cond(ctx, gnode), True))
                    pushed = True
                except Opaque:
                    pushed = False
            try:
                e2 = self.exec_list(ctx, stmts, env)
            finally:
                if pushed:
                    self.condstack.pop()
            if None in vals:
                default_env = e2
                vals = [v for v in vals if v is not None]
            if vals:
                results.append((vals, e2))
        res = default_env
        for vals, e2 in results:
            node = None
            for v in vals:
                eq = {"k": "BinaryOperator", "op": "==", "id": -1000 - v, "c": [scrut, {"k": "IntegerLiteral", "v": v, "id": -2000 - v, "c": []}]}
                node = eq if node is None else {"k": "BinaryOperator", "op": "||", "id": -3000 - v, "c": [node, eq]}
            res = self.merge(ctx, Cond(ctx, node), e2, res, node)
        return res

    def sync(self, ctx, env):
        self._env = env
        ctx._saved = ctx.forms
        ctx.forms = dict((k[2:], v) for k, v in env.items() if k.startswith("v:") and v is not None)

    def unsync(self, ctx):
        ctx.forms = ctx._saved

    def fexpr(self, ctx, env, e):
        self.sync(ctx, env)
        try:
            return self.form(ctx, e)
        finally:
            self.unsync(ctx)

    def touches(self, ctx, stmt, env):
        """does the statement affect tracked integers, streams or return?"""
        if stmt is None:
            return False
        for x in facts.walk(stmt):
            k = x["k"]
            if k == "CXXMemberCallExpr" and x.get("cname") in ("write_serialization", "resize"):
                return True
            if ctx.ptrs and k in ("CallExpr", "CXXMemberCallExpr") and x.get("cname") in ("memset", "memcpy", "memmove", "serialize"):
                return True
            if k == "CXXMemberCallExpr" and len(x["c"]) >= 3 and len(ctx.f["params"]) >= 2 and \
                    [strip(a).get("var") for a in x["c"][1:3]] == [p["var"] for p in ctx.f["params"][:2]]:
                return True
            if k in ("ReturnStmt", "CXXThrowExpr", "ContinueStmt"):
                return True
            if k in ("BinaryOperator", "CompoundAssignOperator") and x.get("op", "") in ("=", "+=", "-=", "*=", "|=", "&="):
                t = strip(x["c"][0])
                if t["k"] == "DeclRefExpr" and ("v:" + str(t.get("var"))) in env:
                    return True
            if k == "UnaryOperator" and x.get("op") in ("++", "--"):
                t = strip(x["c"][0])
                if t["k"] == "DeclRefExpr" and ("v:" + str(t.get("var"))) in env:
                    return True
            if k in ("CXXMemberCallExpr", "CallExpr") and self.stream_args(ctx, x, env):
                return True
            if k == "VarDecl" and self.is_stream_type(facts.tyi(ctx.f, x.get("t"))):
                return True
            if k == "VarDecl" and x.get("c") and (facts.tyi(ctx.f, x.get("t")) or {}).get("k") == "ptr" and ctx.f["params"] and \
                    any(y["k"] == "DeclRefExpr" and y.get("var") == ctx.f["params"][0]["var"] for y in facts.walk(x["c"][0])):
                return True
        return False

    def is_stream_type(self, t):
        while t and t.get("k") in ("ref", "ptr"):
            t = t.get("to")
        return bool(t) and t.get("k") == "rec" and t.get("name") in ("Tins::Memory::OutputMemoryStream", "Tins::Memory::InputMemoryStream")

    def stream_args(self, ctx, call, env):
        """stream names referenced by the object / arguments of a call"""
        out = []
        for x in facts.walk(call):
            if x["k"] == "DeclRefExpr" and x.get("var") in ctx.streams:
                out.append(ctx.streams[x["var"]])
        return out

    def merge(self, ctx, ca, ea, eb, cnd):
        out = {}
        for key in set(ea) | set(eb):
            a, b = ea.get(key), eb.get(key)
            if key in ("§done",):
                out[key] = bool(a) and bool(b)
                continue
            if key == "§throws":
                out[key] = bool(a) or bool(b)
                continue
            if key == "§ret":
                if ea.get("§done") and eb.get("§done") and a is not None and b is not None:
                    out[key] = a if a == b else b + when(ca, a - b)
                elif a is not None and b is None:
                    out[key] = a if ea.get("§throws") is None and eb.get("§throws") else a
                elif b is not None and a is None:
                    out[key] = b
                else:
                    out[key] = a if a is not None else b
                continue
            if key.startswith(("s:", "t:", "v:")):
                if a is None and isinstance(b, Form) and key[0] != "v":
                    a = Form()
                if b is None and isinstance(a, Form) and key[0] != "v":
                    b = Form()
            if key.startswith("len:"):
                if a is None:
                    a = atom(key[4:] + ".size()")
                if b is None:
                    b = atom(key[4:] + ".size()")
            if isinstance(a, Form) and isinstance(b, Form):
                if a == b:
                    out[key] = a
                else:
                    out[key] = self.guarded(ctx, ca, a, b, cnd, ea, eb)
            elif isinstance(a, Form) and b is None:
                out[key] = a
            elif isinstance(b, Form) and a is None:
                out[key] = b
            else:
                out[key] = a if a is not None else b
        # a throwing branch contributes nothing: take the other branch's values
        if ea.get("§throws") and ea.get("§done") and not eb.get("§throws"):
            for key, b in eb.items():
                out[key] = b
            out["§done"] = bool(eb.get("§done"))
            out.pop("§throws", None)
        elif eb.get("§throws") and eb.get("§done") and not ea.get("§throws"):
            for key, a in ea.items():
                out[key] = a
            out["§done"] = bool(ea.get("§done"))
            out.pop("§throws", None)
        return out

    def guarded(self, ctx, ca, a, b, cnd, ea, eb):
        """b + [c](a - b), with the `if (x < pad(x)) add pad(x) - x` idiom resolved"""
        d = a - b
        c0 = strip(cnd)
        if c0["k"] == "BinaryOperator" and c0.get("op") in ("<", ">", "!="):
            self.sync(ctx, eb)
            try:
                l, r = self.form(ctx, c0["c"][0]), self.form(ctx, c0["c"][1])
            finally:
                self.unsync(ctx)
            if c0["op"] == ">":
                l, r = r, l
            for x, y in ((l, r), (r, l)) if c0["op"] == "!=" else ((l, r),):
                # y == pad(x) ?
                if len(y.atoms) == 1 and not y.whens and not y.sums and y.k == 0:
                    (an, co), = y.atoms.items()
                    if co == 1 and an in self.registry and self.registry[an][1] == x and d == (y - x):
                        return b + d
        return b + when(ca, d)

    def decl(self, ctx, v, env):
        t = facts.tyi(ctx.f, v.get("t")) if v.get("t") is not None else None
        var = v["var"]
        if self.is_stream_type(t):
            # OutputMemoryStream stream(buffer, total_sz)
            init = v["c"][0] if v.get("c") else None
            primary = False
            if init is not None:
                args = [strip(a) for a in init.get("c", [])]
                names = [a.get("name") for a in args if a["k"] == "DeclRefExpr"]
                primary = len(ctx.f["params"]) >= 2 and [p["name"] for p in ctx.f["params"][:2]] == names[:2]
            name = "out" if primary else "aux:" + v.get("name", "?")
            ctx.streams[var] = name
            tt = t
            while tt and tt.get("k") in ("ref", "ptr"):
                tt = tt.get("to")
            self.reader[name] = (tt or {}).get("name") == "Tins::Memory::InputMemoryStream"
            env["s:" + name] = Form() if not primary or "s:out" not in env else env["s:" + name]
            env.setdefault("seg:" + name, 0)
            if init is not None and len(init.get("c", [])) >= 2:
                env["tot:" + name] = self.fexpr(ctx, env, init["c"][1])
            return
        if t and t.get("k") in ("int", "bool", "enum") and var in ctx.assigned:
            if v.get("c"):
                self.effects(ctx, v["c"][0], env, direct_only=True)
            env["v:" + var] = self.fexpr(ctx, env, v["c"][0]) if v.get("c") else Form()
            return
        if t and t.get("k") in ("int", "bool", "enum") and v.get("c"):
            # single-assignment integer local: keep its form so that later uses see the summary, not text
            self.effects(ctx, v["c"][0], env, direct_only=True)
            f = self.fexpr(ctx, env, v["c"][0])
            env["v:" + var] = f
            return
        if t and t.get("k") == "ptr" and v.get("c") and ctx.f["params"]:
            i0 = facts.strip_all(v["c"][0])
            if i0["k"] == "CXXMemberCallExpr" and i0.get("cname") == "pointer":
                me = i0["c"][0]
                while me["k"] in ("ParenExpr", "ImplicitCastExpr"):
                    me = me["c"][0]
                ob = strip(me["c"][0]) if me.get("c") else None
                if ob is not None and ob.get("var") in ctx.streams and ctx.streams[ob["var"]] == "out":
                    ctx.ptrs.add(var)
                    ctx.ptrs.add(ctx.f["params"][0]["var"])
                    env.setdefault("v:" + ctx.f["params"][0]["var"], Form())
                    env["v:" + var] = env.get("s:out", Form()) + env.get("t:out", Form())
                    return
        if t and t.get("k") == "ptr" and v.get("c") and ctx.f["params"] and \
                any(x["k"] == "DeclRefExpr" and (x.get("var") == ctx.f["params"][0]["var"] or ("v:" + str(x.get("var"))) in env and str(x.get("var")) in ctx.ptrs)
                    for x in facts.walk(v["c"][0])):
            # a raw pointer into the output buffer: tracked as an offset from the buffer parameter
            ctx.ptrs.add(var)
            ctx.ptrs.add(ctx.f["params"][0]["var"])
            env.setdefault("v:" + ctx.f["params"][0]["var"], Form())
            try:
                env["v:" + var] = self.fexpr(ctx, env, v["c"][0])
            except Opaque:
                env["v:" + var] = atom("?ptr")
            return
        if t and t.get("k") == "ref" and v.get("c"):
            ctx.alias[var] = self.txt(ctx, v["c"][0])
            # reference to a stream?
            i0 = strip(v["c"][0])
            if i0["k"] == "DeclRefExpr" and i0.get("var") in ctx.streams:
                ctx.streams[var] = ctx.streams[i0["var"]]
            return
        # anything else may still contain stream effects (constructor arguments)
        if v.get("c"):
            self.effects(ctx, v["c"][0], env)

    def expr_stmt(self, ctx, s, env):
        s0 = s
        while s0["k"] in ("ExprWithCleanups", "ParenExpr") and s0.get("c"):
            s0 = s0["c"][0]
        k = s0["k"]
        if k in ("BinaryOperator", "CompoundAssignOperator") and s0.get("op") in ("=", "+=", "-="):
            t = strip(s0["c"][0])
            if t["k"] == "DeclRefExpr" and ("v:" + str(t.get("var"))) in env:
                key = "v:" + t["var"]
                val = self.fexpr(ctx, env, s0["c"][1])
                self.effects(ctx, s0["c"][1], env)
                if s0["op"] == "=":
                    env[key] = val
                elif s0["op"] == "+=":
                    env[key] = env[key] + val
                else:
                    env[key] = env[key] - val
                return
        if k == "UnaryOperator" and s0.get("op") in ("++", "--"):
            t = strip(s0["c"][0])
            if t["k"] == "DeclRefExpr" and ("v:" + str(t.get("var"))) in env:
                env["v:" + t["var"]] = env["v:" + t["var"]] + (1 if s0["op"] == "++" else -1)
                return
        if k in ("CompoundAssignOperator",):
            t = strip(s0["c"][0])
            if t["k"] == "DeclRefExpr" and ("v:" + str(t.get("var"))) in env:
                env["v:" + t["var"]] = atom("?" + self.txt(ctx, s0))
                return
        if k == "CXXMemberCallExpr" and s0.get("cname") == "resize" and len(s0["c"]) >= 2:
            me = s0["c"][0]
            while me["k"] in ("ParenExpr", "ImplicitCastExpr"):
                me = me["c"][0]
            if me.get("c"):
                env["len:" + self.txt(ctx, me["c"][0])] = self.fexpr(ctx, env, s0["c"][1])
                return
        self.effects(ctx, s0, env)

    # ---- stream effects of an expression
    def effects(self, ctx, e, env, direct_only=False):
        for x in self.calls_in_order(e):
            if direct_only:
                # only operations on a cursor itself; helper calls are summarised by call_form when their value is used
                if x["k"] != "CXXMemberCallExpr":
                    continue
                me = x["c"][0]
                while me["k"] in ("ParenExpr", "ImplicitCastExpr"):
                    me = me["c"][0]
                obj = strip(me["c"][0]) if me.get("c") else None
                if obj is None or obj["k"] != "DeclRefExpr" or obj.get("var") not in ctx.streams:
                    continue
            self.call_effect(ctx, x, env)

    def calls_in_order(self, e):
        out = []

        def go(n):
            for c in n.get("c", []) or []:
                if isinstance(c, dict):
                    go(c)
            if n["k"] in ("CXXMemberCallExpr", "CallExpr", "CXXOperatorCallExpr"):
                out.append(n)
        go(e)
        return out

    def raw_effect(self, ctx, n, env):
        """memset / memcpy / x.serialize(ptr, n) through a tracked raw pointer"""
        cn = n.get("cname")
        args = n["c"][1:]
        if not ctx.ptrs or not args:
            return
        if cn in ("memset", "memcpy", "memmove") and len(args) == 3:
            dest, ln = args[0], args[2]
        elif cn == "serialize" and len(args) == 2 and n["k"] == "CXXMemberCallExpr":
            dest, ln = args[0], args[1]
        else:
            return
        if not any(x["k"] == "DeclRefExpr" and x.get("var") in ctx.ptrs for x in facts.walk(dest)):
            return
        try:
            d = self.fexpr(ctx, env, dest)
            if cn == "serialize":
                # x.serialize(ptr, bound) writes exactly x.size() bytes (R1: serialize-vs-size); the bound only limits its cursor
                me = n["c"][0]
                while me["k"] in ("ParenExpr", "ImplicitCastExpr"):
                    me = me["c"][0]
                l = atom(self.txt(ctx, me["c"][0]) + ".size()") if me.get("c") else None
            else:
                l = self.fexpr(ctx, env, ln)
        except Opaque:
            d = l = None
        self.rawlog.append((cn, d, l, list(self.condstack), n, ctx))

    def call_effect(self, ctx, n, env):
        self.raw_effect(ctx, n, env)
        if n["k"] == "CXXMemberCallExpr":
            me = n["c"][0]
            while me["k"] in ("ParenExpr", "ImplicitCastExpr"):
                me = me["c"][0]
            obj = strip(me["c"][0]) if me.get("c") else None
            if obj is not None and obj["k"] == "DeclRefExpr" and obj.get("var") in ctx.streams:
                self.stream_op(ctx, ctx.streams[obj["var"]], n, env)
                return
        names = []
        for a in n["c"][1:]:
            a0 = strip(a)
            if a0["k"] == "DeclRefExpr" and a0.get("var") in ctx.streams:
                names.append(ctx.streams[a0["var"]])
        if not names:
            # a base-class serialiser / a helper of the same object continued on the same buffer
            if len(n["c"]) >= 3 and len(ctx.f["params"]) >= 2 and n["k"] in ("CXXMemberCallExpr", "CallExpr") and \
                    [strip(a).get("var") for a in n["c"][1:3]] == [p["var"] for p in ctx.f["params"][:2]] and \
                    (n.get("cname") == "write_serialization" or self.db.functions.get(n.get("callee"), {}).get("rec") in
                     ([ctx.f.get("rec")] + list(self.db.all_bases(ctx.f.get("rec") or "")))):
                fs = self.db.functions.get(n.get("callee"))
                if fs is None or not fs.get("body"):
                    raise Opaque("base serialiser %s has no body" % n.get("callee"))
                sub = Ctx(self, fs, None, ctx.this_txt, ctx.depth + 1, ctx.cls)
                senv = dict((kk, vv) for kk, vv in env.items() if kk.startswith(("s:", "seg:", "t:", "len:", "last:")))
                for sv, nm in ctx.streams.items():
                    pass
                senv["§ret"] = None
                out = self.exec_list(sub, fs["body"].get("c", []), senv)
                for kk, vv in out.items():
                    if kk.startswith(("s:", "seg:", "t:")):
                        env[kk] = vv
            return
        # helper receiving the stream: inline
        fs = self.resolve(ctx, n)
        if fs is None or not fs.get("body") or ctx.depth >= MAX_INLINE:
            raise Opaque("stream passed to %s, whose body is not available" % (n.get("cname")))
        sub = Ctx(self, fs, None, ctx.this_txt, ctx.depth + 1, ctx.cls)
        args = n["c"][1:]
        if n["k"] == "CXXMemberCallExpr":
            me = n["c"][0]
            while me["k"] in ("ParenExpr", "ImplicitCastExpr"):
                me = me["c"][0]
            obj = me["c"][0] if me.get("c") else None
            if obj is not None and strip(obj)["k"] != "CXXThisExpr":
                sub.this_txt = self.txt(ctx, obj)
                sub.cls = None
        senv = {"§ret": None}
        for p, a in zip(fs["params"], args):
            pt = facts.tyi(fs, p.get("t")) or {}
            a0 = strip(a)
            if self.is_stream_type(pt) and a0["k"] == "DeclRefExpr" and a0.get("var") in ctx.streams:
                nm = ctx.streams[a0["var"]]
                sub.streams[p["var"]] = nm
                senv["s:" + nm] = env["s:" + nm]
                senv["seg:" + nm] = env.get("seg:" + nm, 0)
                for kk in env:
                    if kk.startswith(("t:" + nm, "last:" + nm, "tot:" + nm, "rest:" + nm)):
                        senv[kk] = env[kk]
            elif pt.get("k") in ("int", "bool", "enum"):
                senv["v:" + p["var"]] = self.fexpr(ctx, env, a)
            else:
                sub.alias[p["var"]] = self.txt(ctx, a)
        out = self.exec_list(sub, fs["body"].get("c", []), senv)
        for kk, vv in out.items():
            if kk.startswith(("s:", "seg:", "t:", "last:", "rest:")):
                env[kk] = vv

    def stream_op(self, ctx, name, n, env):
        op = n.get("cname")
        args = n["c"][1:]
        key = "s:" + name
        amt = None
        if op in ("read", "read_be", "read_le") and len(args) == 0:
            # T read<T>(): the value is returned
            rt = facts.ty(ctx.f, n)
            sz = type_size(self.db, rt)
            if sz is None:
                raise Opaque("read of a value of unknown size")
            amt = const(sz)
            self.log(name, "read", None, amt, n.get("l"), op, None, "int" if (rt or {}).get("k") in ("int", "enum") else "bytes")
            self.advance(name, amt, env)
            return
        if op == "read" and len(args) == 2:
            amt = self.fexpr(ctx, env, args[1])
            self.log(name, "read", self.txt(ctx, args[0]), amt, n.get("l"), "read")
            self.advance(name, amt, env)
            return
        if op in ("can_read", "operator bool"):
            return
        if op in ("write", "write_be", "write_le", "read"):
            if len(args) == 1:
                fs = self.db.functions.get(n.get("callee"))
                t = None
                if fs is not None and fs["params"]:
                    t = facts.tyi(fs, fs["params"][0].get("t"))
                    while t and t.get("k") == "ref":
                        t = t.get("to")
                if t is None:
                    t = facts.ty(ctx.f, args[0])
                sz = type_size(self.db, t)
                if sz is None:
                    raise Opaque("write of a value of unknown size (%s)" % (t or {}).get("s"))
                amt = const(sz)
                env["last:" + name] = (ctx, args[0], sz)
                vt = t or {}
                self.log(name, "read" if op == "read" else "write", self.txt(ctx, args[0]), amt, n.get("l"), op, facts.cval(args[0]),
                         "int" if vt.get("k") in ("int", "enum") else "bytes")
            elif len(args) == 2:
                a0, a1 = self.txt(ctx, args[0]), self.txt(ctx, args[1])
                t1 = facts.ty(ctx.f, args[1]) or {}
                if t1.get("k") == "int":
                    amt = self.fexpr(ctx, env, args[1])
                elif a0.endswith(".begin()") and a1.endswith(".end()") and a0[:-8] == a1[:-6]:
                    amt = env.get("len:" + a0[:-8]) or atom(a0[:-8] + ".size()")
                elif a1.startswith("(" + a0 + " + ") and a1.endswith(")"):
                    inner = strip(args[1])
                    while inner["k"] in ("CXXConstructExpr", "MaterializeTemporaryExpr", "ImplicitCastExpr") and inner.get("c"):
                        inner = strip(inner["c"][0])
                    if inner["k"] in ("BinaryOperator",):
                        amt = self.fexpr(ctx, env, inner["c"][1])
                    elif inner["k"] == "CXXOperatorCallExpr":
                        amt = self.fexpr(ctx, env, inner["c"][2])
                if amt is None:
                    amt = atom("dist(%s,%s)" % (a0, a1))
                env.pop("last:" + name, None)
                self.log(name, "write", a0[:-8] if a0.endswith(".begin()") else a0, amt, n.get("l"), "write")
        elif op == "fill":
            amt = self.fexpr(ctx, env, args[0])
            env.pop("last:" + name, None)
            self.log(name, "fill", None, amt, n.get("l"), "fill")
        elif op == "skip":
            a = self.txt(ctx, args[0])
            if a in ("inner_pdu_.size()", "inner_pdu().size()"):
                env["seg:" + name] = env.get("seg:" + name, 0) + 1
                env["t:" + name] = env.get("t:" + name, Form())
                env.pop("last:" + name, None)
                return
            amt = self.fexpr(ctx, env, args[0])
            env.pop("last:" + name, None)
            self.log(name, "skip", None, amt, n.get("l"), "skip")
        elif op in ("pointer", "size"):
            return
        else:
            raise Opaque("stream operation %s" % op)
        self.advance(name, amt, env)

    def log(self, name, kind, member, amt, line, op=None, cv=None, vkind="bytes"):
        self.oplog.append((name, kind, member, amt, line, op or kind, cv, vkind, list(self.condstack)))

    def advance(self, name, amt, env):
        if env.get("rest:" + name):
            return
        if env.get("seg:" + name, 0) >= 1:
            env["t:" + name] = env.get("t:" + name, Form()) + amt
        else:
            env["s:" + name] = env.get("s:" + name, Form()) + amt

    # ---- loops
    def loop(self, ctx, s, env):
        k = s["k"]
        parts = [x for x in s.get("c", [])]
        body = parts[-1] if k != "DoStmt" else parts[0]
        if not self.touches(ctx, body, env):
            return env
        cont = None
        itvar = None
        if k == "CXXForRangeStmt":
            decls = [x for x in parts[:-1] if x is not None and x["k"] == "DeclStmt"]
            for d in decls:
                for v in d.get("c", []):
                    if v.get("k") == "VarDecl" and (v.get("name") or "").startswith("__range") and v.get("c"):
                        cont = self.txt(ctx, v["c"][0])
            if decls:
                lv = [v for v in decls[-1].get("c", []) if v.get("k") == "VarDecl"]
                if lv:
                    itvar = lv[0]["var"]
        if k == "ForStmt":
            init = parts[0]
            cnd = parts[-3] if len(parts) >= 4 else None
            # iterator loop:  for (it = C.begin(); it != C.end(); ++it)
            if init is not None:
                for x in facts.walk(init):
                    if x["k"] == "VarDecl" and x.get("c"):
                        t = self.txt(ctx, x["c"][0])
                        if t.endswith(".begin()"):
                            cont, itvar = t[:-8], x["var"]
                        elif t == "0":
                            itvar = x["var"]
                if cont is None and itvar is not None and cnd is not None:
                    ct = self.txt(ctx, cnd)
                    for x in facts.walk(cnd):
                        if x["k"] == "CXXMemberCallExpr" and x.get("cname") == "size":
                            cont = self.txt(ctx, x)[:-7]
                    if cont is not None:
                        sub_alias = dict(ctx.alias)
                        # element access C[i]
                        ctx.alias[itvar] = "§i"
        if cont is None:
            for x in facts.walk(body):
                if x["k"] in ("CXXMemberCallExpr", "CallExpr") and (self.stream_args(ctx, x, env) or x.get("cname") == "write_serialization"):
                    names = self.stream_args(ctx, x, env)
                    if names and all(self.reader.get(nm2) for nm2 in names):
                        res = dict(env)
                        for nm2 in names:
                            res["rest:" + nm2] = True
                            self.log(nm2, "rest", None, Form(), s.get("l"), "rest")
                        return res
                    raise Opaque("loop at line %s writes to the stream but is not an iteration over a container" % s.get("l"))
                if x["k"] == "ReturnStmt":
                    raise Opaque("loop at line %s returns from inside" % s.get("l"))
            res = dict(env)
            for x in facts.walk(s):
                t = None
                if x["k"] in ("BinaryOperator", "CompoundAssignOperator") and x.get("op", "").endswith("=") and x.get("op") not in ("==", "!=", "<=", ">="):
                    t = strip(x["c"][0])
                if x["k"] == "UnaryOperator" and x.get("op") in ("++", "--"):
                    t = strip(x["c"][0])
                if t is not None and t["k"] == "DeclRefExpr" and ("v:" + str(t.get("var"))) in res:
                    res["v:" + t["var"]] = atom("?loop:%s@%s" % (t.get("name"), s.get("l")))
            return res
        saved_alias = dict(ctx.alias)
        if ctx.alias.get(itvar) != "§i":
            ctx.alias[itvar] = "$e"
        # run the body from zeroed tracked quantities
        zero = {}
        for kk, vv in env.items():
            if isinstance(vv, Form) and kk.startswith(("v:", "s:", "t:")):
                zero[kk] = Form()
            else:
                zero[kk] = vv
        # integer variables read (not only accumulated) inside the body keep their outer value
        reads = self.plain_reads(ctx, body, env)
        for kk in reads:
            zero[kk] = env[kk]
        out = self.exec_list(ctx, [body], zero)
        ctx.alias = saved_alias
        res = dict(env)
        for kk, vv in out.items():
            if isinstance(vv, Form) and kk.startswith(("v:", "s:", "t:")) and kk not in reads:
                d = vv
                if not d.is_zero():
                    d = self.elemify(d, cont)
                    if d.is_const():
                        res[kk] = env.get(kk, Form()) + atom(cont + ".size()").scale(d.k)
                    else:
                        res[kk] = env.get(kk, Form()) + Form(0, None, None, [(1, cont, d)])
            elif kk.startswith("seg:"):
                res[kk] = vv
        return res

    def elemify(self, form, cont):
        """replace `C[§i]` by $e in atom texts"""
        def fix(t):
            return t.replace("%s[§i]" % cont, "$e").replace("(*%s[§i])" % cont, "$e")
        f = Form(form.k, dict((fix(a), c) for a, c in form.atoms.items()),
                 [(c, self.elemify(x, cont)) for c, x in form.whens],
                 [(co, ct, x) for co, ct, x in form.sums])
        return f

    def plain_reads(self, ctx, body, env):
        out = set()
        written = set()
        for x in facts.walk(body):
            if x["k"] in ("BinaryOperator", "CompoundAssignOperator") and x.get("op") in ("=", "+=", "-="):
                t = strip(x["c"][0])
                if t["k"] == "DeclRefExpr":
                    written.add("v:" + str(t.get("var")))
        return out


def has_return(n):
    """the statement may leave the enclosing statement list (return, or continue of the enclosing loop)"""
    def go(x, inloop):
        if not isinstance(x, dict):
            return False
        if x["k"] == "ReturnStmt" or (x["k"] == "ContinueStmt" and not inloop):
            return True
        il = inloop or x["k"] in ("ForStmt", "WhileStmt", "DoStmt", "CXXForRangeStmt")
        return any(go(c, il) for c in x.get("c", ()) if c is not None)
    return go(n, False)


def type_size(db, t):
    if t is None:
        return None
    k = t.get("k")
    if k in ("int", "bool", "enum"):
        return (t.get("w") or 8) // 8 if t.get("w") else None
    if k == "rec":
        if "size" in t:
            return t["size"]
        r = db.records.get(t.get("name"))
        return r.get("size") if r else None
    if k == "arr":
        e = type_size(db, t.get("to"))
        return e * t["n"] if e is not None else None
    return None


# --------------------------------------------------------------------------- comparison on a finite partition
class Cells(object):
    """terms tested by the conditions of a set of forms, with representative values"""

    def __init__(self, fx, lower=None):
        self.fx = fx
        self.terms = {}      # text -> set(values)
        self.lower = dict(lower or {})

    def collect(self, form):
        for c, f in form.whens:
            self.collect_cond(c)
            self.collect(f)
        for co, ct, f in form.sums:
            pass

    def collect_cond(self, c):
        ctx = c.ctx
        consts = set()
        terms = []

        def go(n, depth=0):
            k = n["k"]
            if n.get("id") in ctx.subst:
                tt = facts.ty(ctx.f, n) or {}
                terms.append(("rec8" if type_size(self.fx.db, tt) == 1 else "int", c.txt(n), n))
                return
            if n.get("id") in c.callforms:
                fmx = c.callforms[n["id"]]
                self.collect(fmx)
                for a in all_atoms(fmx):
                    terms.append(("int", a, n))
                return
            v = facts.cval(n)
            if v is not None and k != "DeclRefExpr":
                consts.add(int(v))
                return
            if k in ("ParenExpr", "ImplicitCastExpr", "CStyleCastExpr", "CXXStaticCastExpr", "CXXFunctionalCastExpr",
                     "MaterializeTemporaryExpr", "ExprWithCleanups", "CXXBindTemporaryExpr"):
                go(n["c"][0], depth)
                return
            if k == "BinaryOperator" or k == "UnaryOperator" or k == "ConditionalOperator":
                for x in n["c"]:
                    go(x, depth)
                return
            if k == "DeclRefExpr":
                var = n.get("var")
                if "v" in n:
                    consts.add(int(n["v"]))
                    return
                if var in c.forms:
                    fm = c.forms[var]
                    if fm.is_const():
                        consts.add(fm.k)
                        return
                    self.collect(fm)
                    for a in all_atoms(fm):
                        terms.append(("int", a, n))
                    return
                if var in ctx.locals_init and var not in ctx.assigned and var not in c.alias and depth < 6:
                    go(ctx.locals_init[var], depth + 1)
                    return
            if k == "MemberExpr" and n.get("isfield") and n.get("c"):
                b = strip(n["c"][0])
                bt = facts.ty(ctx.f, b) or {}
                if bt.get("k") == "rec" and b["k"] != "CXXThisExpr" and not (b["k"] == "MemberExpr"):
                    # bit-field of a record-valued term
                    terms.append(("rec8" if type_size(self.fx.db, bt) == 1 else "rec", c.txt(b), b))
                    return
            terms.append(("int", c.txt(n), n))
        go(c.node)
        for kind, t, node in terms:
            s = self.terms.setdefault(t, set([0, 1]))
            if kind == "rec8":
                s.update(range(256))
            elif kind == "rec":
                s.update([0, 1, 2, 3])
            for cv in consts:
                for d in (-1, 0, 1):
                    if 0 <= cv + d < (1 << 32):
                        s.add(cv + d)
        # terms compared with each other share their values
        if len(terms) >= 2:
            u = set()
            for _, t, _ in terms:
                u |= self.terms[t]
            if len(u) <= 64:
                for _, t, _ in terms:
                    self.terms[t] = set(u)

    def assignments(self, limit=60000):
        import itertools
        import re
        for t in list(self.terms):
            mm = re.search(r"% (\d+)\)$", t)
            if mm and int(mm.group(1)) <= 16:
                self.terms[t] = set(range(int(mm.group(1))))
        for t, lo in self.lower.items():
            if t in self.terms:
                self.terms[t] = set(v for v in self.terms[t] if v >= lo) | set([lo, lo + 1])
        names = sorted(self.terms)
        total = 1
        for n in names:
            total *= len(self.terms[n])
        if total > limit:
            raise Opaque("partition of %d cells is too large" % total)
        for vals in itertools.product(*[sorted(self.terms[n]) for n in names]):
            yield dict(zip(names, vals))


def all_atoms(form):
    out = set(form.atoms)
    for c, f in form.whens:
        out |= all_atoms(f)
    return out


def eval_cond(fx, c, cell):
    ctx = c.ctx

    def termfn(e):
        k = e["k"]
        if e.get("id") in ctx.subst:
            return cell.get(c.txt(e))
        if e.get("id") in c.callforms:
            v = flat_value(fx, c.callforms[e["id"]], cell)
            if v is not None:
                return v
        if k in ("IntegerLiteral", "CharacterLiteral", "CXXBoolLiteralExpr"):
            return None
        if k == "DeclRefExpr":
            var = e.get("var")
            if var in c.forms:
                fm = c.forms[var]
                if fm.is_const():
                    return fm.k
                return flat_value(fx, fm, cell)
        if k in ("CXXMemberCallExpr", "CallExpr", "MemberExpr", "DeclRefExpr", "CXXOperatorCallExpr", "UnaryOperator"):
            t = c.txt(e)
            if t in cell:
                return cell[t]
        return None
    env = {"__termfn__": termfn, "__db__": fx.db}
    return bool(ieval.ev(ctx.f, c.node, env, ctx.locals_init))


def flatten(fx, form, cell):
    """(k, atoms, sums) with conditions decided by the cell; None when a condition cannot be evaluated"""
    k = form.k
    atoms = {}
    sums = []
    for a, co in form.atoms.items():
        if a in cell:
            k += co * cell[a]
        elif a in fx.registry and flat_value(fx, fx.registry[a][1], cell) is not None:
            kp, inner = fx.registry[a]
            v = flat_value(fx, inner, cell)
            k += co * (((v + kp - 1) // kp) * kp)
        else:
            atoms[a] = atoms.get(a, 0) + co
    for c, f in form.whens:
        if eval_cond(fx, c, cell):
            r = flatten(fx, f, cell)
            k += r[0]
            for a, co in r[1].items():
                atoms[a] = atoms.get(a, 0) + co
            sums.extend(r[2])
    for co, ct, f in form.sums:
        sums.append((co, ct, f))
    atoms = dict((a, c) for a, c in atoms.items() if c != 0)
    return k, atoms, sums


def flat_value(fx, form, cell):
    try:
        r = flatten(fx, form, cell)
    except ieval.Unknown:
        return None
    if r[1] or r[2]:
        return None
    return r[0]


# --------------------------------------------------------------------------- comparing two forms
def compare(fx, A, B, counters=None, elem_depth=0, lower=None):
    """Compare forms A (bytes written) and B (bytes counted).  counters: {atom text: container text} - a cached
    counter atom stands for SUM(container, <the writer's per-element form>) (established by the cache-pair rule).
    Returns list of (verdict, message) with verdict in ok / more / less / differ / undecided."""
    cells = Cells(fx, lower)
    try:
        cells.collect(A)
        cells.collect(B)
        assigns = list(cells.assignments())
    except Opaque as e:
        return [("undecided", str(e))]
    out = []
    seen = set()
    n_ok = 0
    for cell in assigns:
        try:
            fa = flatten(fx, A, cell)
            fb = flatten(fx, B, cell)
        except ieval.Unknown as e:
            return [("undecided", "condition outside the evaluator: %s" % e)]
        ka, aa, sa = fa
        kb, ab, sb = fb
        sa, sb = list(sa), list(sb)
        aa, ab = dict(aa), dict(ab)
        # cached counters stand for the sum over their container
        for cn, cont in (counters or {}).items():
            if ab.get(cn) and any(ct == cont for co, ct, f in sa):
                co_b = ab.pop(cn)
                mine = [x for x in sa if x[1] == cont]
                tot = sum(x[0] for x in mine)
                if tot == co_b:
                    sa = [x for x in sa if x[1] != cont]
                else:
                    ab[cn] = co_b
        d_atoms = dict(aa)
        for a, c in ab.items():
            d_atoms[a] = d_atoms.get(a, 0) - c
        d_atoms = dict((a, c) for a, c in d_atoms.items() if c)
        # sums: group by container
        conts = set(x[1] for x in sa) | set(x[1] for x in sb)
        sum_msgs = []
        for ct in sorted(conts):
            la = [(co, f) for co, c2, f in sa if c2 == ct]
            lb = [(co, f) for co, c2, f in sb if c2 == ct]
            fa_e = Form()
            for co, f in la:
                fa_e = fa_e + f.scale(co)
            fb_e = Form()
            for co, f in lb:
                fb_e = fb_e + f.scale(co)
            if fa_e == fb_e:
                continue
            if elem_depth > 2:
                sum_msgs.append(("undecided", "nested element forms over %s" % ct))
                continue
            sub = compare(fx, fa_e, fb_e, None, elem_depth + 1)
            for v, m in sub:
                if v != "ok":
                    sum_msgs.append((v, "for an element of %s: %s" % (ct, m)))
        dk = ka - kb
        key = None
        if d_atoms:
            msg = "written - counted = %s%s" % (dk if dk else "", "".join(" %+d*%s" % (c, a) for a, c in sorted(d_atoms.items())))
            if all(c > 0 for c in d_atoms.values()) and dk > 0:
                key = ("more", "at least %d byte(s) more are written than counted (%s)" % (dk, msg))
            elif all(c < 0 for c in d_atoms.values()) and dk <= 0:
                key = ("less", "fewer bytes are written than counted (%s)" % msg)
            else:
                key = ("differ", msg)
        elif dk > 0:
            key = ("more", "%d byte(s) more are written than counted" % dk)
        elif dk < 0:
            key = ("less", "%d byte(s) fewer are written than counted" % -dk)
        where = ", ".join("%s=%s" % (t, v) for t, v in sorted(cell.items())) or "always"
        for v, m in ([key] if key else []) + sum_msgs:
            if (v, m) not in seen:
                seen.add((v, m))
                out.append((v, "%s [when %s]" % (m, where)))
        if not key and not sum_msgs:
            n_ok += 1
    if not out:
        return [("ok", "%d cell(s) of the condition partition agree" % len(assigns))]
    return out
