"""Affine (linear-equality) symbolic tracking through one loop iteration.

Used for cursor-bookkeeping rules of the form "variable `off` always denotes the
position of index `i` of a parallel sequence": the body of the loop is walked once
from a state that satisfies the invariant, every integer variable is kept as a
linear expression (vlib.lin.Lin) over the symbols of the loop head, inner scanning
loops that only step the index are havocked to a fresh symbol, branches are
explored separately, container edits update a ghost displacement, and the rule's
obligations are equalities between linear expressions.  No value is ever
computed; an obligation holds iff the two expressions are identical.
"""
from . import facts
from .facts import strip
from .lin import Lin, atom, const


class Unknown(Exception):
    pass


class State(object):
    def __init__(self, vals, delta, fresh=0):
        self.vals = dict(vals)
        self.delta = delta
        self.fresh = fresh
        self.log = []

    def copy(self):
        s = State(self.vals, self.delta, self.fresh)
        s.log = list(self.log)
        return s

    def new(self, tag):
        self.fresh += 1
        return atom((tag, self.fresh))


def lin_of(f, e, st):
    e = strip(e)
    k = e["k"]
    c = e.get("c", [])
    v = facts.cval(e)
    if v is not None and k != "DeclRefExpr":
        return const(v)
    if k in ("ParenExpr", "ImplicitCastExpr", "CStyleCastExpr", "CXXStaticCastExpr", "CXXFunctionalCastExpr",
             "MaterializeTemporaryExpr", "ExprWithCleanups"):
        return lin_of(f, c[0], st)
    if k == "DeclRefExpr":
        var = e.get("var")
        if var in st.vals:
            return st.vals[var]
        if v is not None:
            return const(v)
        raise Unknown("value of `%s`" % e.get("name"))
    if k == "BinaryOperator" and e.get("op") in ("+", "-"):
        a, b = lin_of(f, c[0], st), lin_of(f, c[1], st)
        return a + b if e["op"] == "+" else a - b
    if k == "BinaryOperator" and e.get("op") == "*":
        a, b = lin_of(f, c[0], st), lin_of(f, c[1], st)
        if a.is_const():
            return b.scale(a.k)
        if b.is_const():
            return a.scale(b.k)
    raise Unknown("expression %s" % facts.expr_str(e)[:40])


def iter_off(f, n, st):
    """linear distance from begin() of `begin() + a - b ...`"""
    k = n["k"]
    if k in ("CXXConstructExpr", "MaterializeTemporaryExpr", "ImplicitCastExpr", "ExprWithCleanups", "CXXBindTemporaryExpr", "ParenExpr"):
        return iter_off(f, n["c"][0], st)
    if k == "CXXOperatorCallExpr" and n.get("op") in ("+", "-"):
        a = iter_off(f, n["c"][1], st)
        b = lin_of(f, n["c"][2], st)
        return a + b if n["op"] == "+" else a - b
    if k == "CXXMemberCallExpr" and n.get("cname") == "begin":
        return const(0)
    raise Unknown("iterator expression %s" % k)


def only_steps(body, var):
    """does the loop body consist only of ++var / var++ / var += 1 ?"""
    stmts = body.get("c", []) if body["k"] == "CompoundStmt" else [body]
    if not stmts:
        return False
    for s in stmts:
        s0 = strip(s)
        if s0["k"] == "UnaryOperator" and s0.get("op") == "++" and strip(s0["c"][0]).get("var") == var:
            continue
        return False
    return True


class Walker(object):
    """walk statements; callbacks: on_call(node, state) may record obligations / update delta"""

    def __init__(self, f, index_var, on_call):
        self.f, self.index_var, self.on_call = f, index_var, on_call
        self.ends = []      # states at the end of the body (normal fallthrough)

    def run(self, stmts, st):
        states = [st]
        for s in stmts:
            nxt = []
            for x in states:
                nxt.extend(self.stmt(s, x))
            states = nxt
        return states

    def stmt(self, n, st):
        f = self.f
        k = n["k"]
        c = n.get("c", [])
        if k == "CompoundStmt":
            return self.run(c, st)
        if k in ("ExprWithCleanups",):
            return self.stmt(c[0], st)
        if k == "DeclStmt":
            for v in c:
                if v.get("k") != "VarDecl":
                    continue
                if v.get("c"):
                    self.calls(v["c"][0], st)
                    try:
                        st.vals[v["var"]] = lin_of(f, v["c"][0], st)
                    except Unknown:
                        st.vals[v["var"]] = st.new("v:" + v.get("name", "?"))
                else:
                    st.vals[v["var"]] = st.new("v:" + v.get("name", "?"))
            return [st]
        if k == "WhileStmt":
            real = [x for x in c if x is not None]
            if only_steps(real[-1], self.index_var):
                st.vals[self.index_var] = st.new("i")
                return [st]
            raise Unknown("inner loop at line %s is not a pure index scan" % n.get("l"))
        if k == "IfStmt":
            real = [x for x in c if x is not None]
            then = real[1]
            els = real[2] if len(real) > 2 else None
            out = []
            if not ends_in_jump(then):
                out.extend(self.stmt(then, st.copy()))
            if els is not None:
                if not ends_in_jump(els):
                    out.extend(self.stmt(els, st.copy()))
            else:
                out.append(st)
            return out
        if k in ("BreakStmt", "ContinueStmt", "ReturnStmt"):
            return []
        if k == "CompoundAssignOperator" and n.get("op") in ("+=", "-="):
            tgt = strip(c[0])
            if tgt["k"] == "DeclRefExpr" and tgt.get("var") in st.vals:
                d = lin_of(f, c[1], st)
                st.vals[tgt["var"]] = st.vals[tgt["var"]] + d if n["op"] == "+=" else st.vals[tgt["var"]] - d
                return [st]
            raise Unknown("compound assignment to %s" % facts.expr_str(c[0])[:30])
        if k == "UnaryOperator" and n.get("op") in ("++", "--"):
            tgt = strip(c[0])
            if tgt["k"] == "DeclRefExpr" and tgt.get("var") in st.vals:
                st.vals[tgt["var"]] = st.vals[tgt["var"]] + (1 if n["op"] == "++" else -1)
                return [st]
            raise Unknown("increment of %s" % facts.expr_str(c[0])[:30])
        if k == "BinaryOperator" and n.get("op") == "=":
            tgt = strip(c[0])
            if tgt["k"] == "DeclRefExpr":
                self.calls(c[1], st)
                try:
                    st.vals[tgt["var"]] = lin_of(f, c[1], st)
                except Unknown:
                    st.vals[tgt["var"]] = st.new("v")
                return [st]
        self.calls(n, st)
        return [st]

    def calls(self, n, st):
        for x in facts.walk(n):
            if x["k"] in ("CallExpr", "CXXMemberCallExpr"):
                self.on_call(x, st)


def ends_in_jump(n):
    if n["k"] in ("BreakStmt", "ContinueStmt", "ReturnStmt"):
        return True
    if n["k"] == "CompoundStmt" and n.get("c"):
        return ends_in_jump(n["c"][-1])
    return False
