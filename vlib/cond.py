"""Normal forms of branch conditions.

facts_of(f, cond, polarity) -> list of atoms that hold when `cond` evaluated to
`polarity`.  Atom = (op, lhs node, rhs node) with op in <,<=,>,>=,==,!= ,
or ("true", node, None) / ("false", node, None) for a bare boolean test.
Looks through !, !!, __builtin_expect (TINS_LIKELY/UNLIKELY), parentheses and
boolean conversions; && under True and || under False are split.
"""
from . import facts
from .facts import strip

NEG = {"<": ">=", "<=": ">", ">": "<=", ">=": "<", "==": "!=", "!=": "=="}
SWAP = {"<": ">", "<=": ">=", ">": "<", ">=": "<=", "==": "==", "!=": "!="}


def peel(n):
    """strip wrappers that do not change truth value; returns (node, negated)"""
    neg = False
    while True:
        n = strip(n)
        k = n["k"]
        if k == "UnaryOperator" and n.get("op") == "!":
            neg = not neg
            n = n["c"][0]
            continue
        if k == "CallExpr" and n.get("cname") == "__builtin_expect" and len(n.get("c", [])) >= 2:
            n = n["c"][1]
            continue
        if k in ("CStyleCastExpr", "CXXStaticCastExpr", "CXXFunctionalCastExpr") and n.get("c"):
            t = n.get("ck")
            if t in ("IntegralToBoolean", "NoOp", "IntegralCast", "PointerToBoolean"):
                n = n["c"][0]
                continue
        if k == "ImplicitCastExpr":
            n = n["c"][0]
            continue
        return n, neg


def facts_of(f, cond, polarity):
    n, neg = peel(cond)
    pol = polarity != neg
    k = n["k"]
    if k == "BinaryOperator":
        op = n["op"]
        if op == "&&":
            if pol:
                return facts_of(f, n["c"][0], True) + facts_of(f, n["c"][1], True)
            return []
        if op == "||":
            if not pol:
                return facts_of(f, n["c"][0], False) + facts_of(f, n["c"][1], False)
            return []
        if op in NEG:
            o = op if pol else NEG[op]
            return [(o, n["c"][0], n["c"][1])]
    if k == "CXXOperatorCallExpr" and n.get("op") in NEG and len(n["c"]) == 3:
        o = n["op"] if pol else NEG[n["op"]]
        return [(o, n["c"][1], n["c"][2])]
    return [("true" if pol else "false", n, None)]


# ---------------------------------------------------------------------------------------------- guard helpers
# A guard helper is a function whose only effect is to throw unless a condition over its parameters and *this holds
# (`void ensure(n) const { if (!can_read(n)) throw malformed_packet(); }`).  A call to one is the same guard as the
# `if` written out at the call site: the helper's condition is grafted into the caller (parameters -> arguments,
# this -> receiver) and holds wherever the call dominates.
_GH = {}
_GRAFT = {}
_NEXT_ID = [100000000]
MUTATING = ("CompoundAssignOperator", "CXXNewExpr", "CXXDeleteExpr", "LambdaExpr")


def guard_helper(db, callee):
    """[(condition node, polarity)] that hold on every normal return of `callee`, or None"""
    if db is None or not callee:
        return None
    key = (id(db), callee)
    if key in _GH:
        return _GH[key]
    _GH[key] = None
    h = db.fn(callee)
    if h is None or not h.get("body") or not h.get("cfg") or h.get("virtual") or h.get("kind") in ("ctor", "dtor"):
        return None
    from . import cfg as _cfg
    nodes = list(facts.fn_nodes(h))
    if len(nodes) > 60:
        return None
    under_throw = set()
    for n in nodes:
        if n["k"] == "CXXThrowExpr":
            under_throw.update(x["id"] for x in facts.walk(n))
    pvars = set(p.get("var") for p in h.get("params", ()))
    for n in nodes:
        if n["id"] in under_throw:
            continue
        k = n["k"]
        if k in MUTATING or (k == "BinaryOperator" and n.get("op") == "=") or (k == "UnaryOperator" and n.get("op") in ("++", "--")) or \
                k in ("ForStmt", "WhileStmt", "DoStmt", "CXXForRangeStmt", "DeclStmt", "CXXTryStmt"):
            return None
        if k in ("CallExpr", "CXXOperatorCallExpr", "CXXConstructExpr", "CXXTemporaryObjectExpr"):
            if not (k == "CallExpr" and n.get("cname") == "__builtin_expect"):
                return None
        if k == "CXXMemberCallExpr" and not (n.get("callee") or "").endswith(" const"):
            return None
        if k == "DeclRefExpr" and n.get("var") is not None and n.get("var") not in pvars and not n.get("glob"):
            return None
    try:
        g = _cfg.FnCFG(h)
    except facts.AnalysisBroken:
        return None
    normal = [(b["id"], k_) for b in g.blocks.values() if b["id"] not in g.throws
              for k_, s_ in enumerate(b["s"]) if s_ == g.exit]
    if len(normal) != 1:
        return None
    pb, pk = normal[0]
    gs = [(c, pol) for c, pol, _ in g.guards_at((pb, 0))]
    b = g.blocks[pb]
    if len(b["s"]) == 2 and b.get("cond") is not None and b.get("termk") != "SwitchStmt" and b["s"][0] != b["s"][1]:
        c = g.idx.get(b["cond"])
        if c is not None:
            gs.append((c, pk == 0))
    if not gs:
        return None
    _GH[key] = (h, gs)
    return _GH[key]


def graft(h, f, node, call):
    """copy of helper node `node` that reads as an expression of caller f at `call`"""
    from . import cfg as _cfg
    pv = dict((p.get("var"), i) for i, p in enumerate(h.get("params", ())))
    args = _cfg.args(call)
    recv = _cfg.receiver(call) if call["k"] == "CXXMemberCallExpr" else None
    ht, ft = h.get("_types"), f.get("_types")
    tmap = {}

    def ty(t):
        if t is None or t < 0 or ht is ft:
            return t
        if t not in tmap:
            ft.append(ht[t])
            tmap[t] = len(ft) - 1
        return tmap[t]

    def cp(n):
        if not isinstance(n, dict):
            return n
        if n["k"] == "DeclRefExpr" and n.get("var") in pv:
            i = pv[n["var"]]
            if i >= len(args):
                raise KeyError("default argument")
            return args[i]
        if n["k"] == "CXXThisExpr":
            if recv is None:
                raise KeyError("no receiver")
            return recv
        m = dict(n)
        _NEXT_ID[0] += 1
        m["id"] = _NEXT_ID[0]
        m["grafted"] = True
        if "t" in m:
            m["t"] = ty(m["t"])
        if "c" in m:
            m["c"] = [cp(c) for c in m["c"]]
        return m
    return cp(node)


def call_guards(f, call, db=None):
    """[(grafted condition, polarity)] established by a call to a guard helper ([] for any other call)"""
    key = (id(f), call["id"])
    if key in _GRAFT:
        return _GRAFT[key]
    out = []
    if call["k"] in ("CXXMemberCallExpr", "CallExpr") and call.get("callee"):
        db = db or facts.db_of(f)
        gh = guard_helper(db, call["callee"])
        if gh:
            h, gs = gh
            if h is not f:
                try:
                    out = [(graft(h, f, c, call), pol) for c, pol in gs]
                except KeyError:
                    out = []
    _GRAFT[key] = out
    return out


def helper_calls(g):
    """[(position, [(grafted condition, polarity)])] for the guard-helper calls of g's function"""
    if getattr(g, "_ghcalls", None) is None:
        res = []
        for n in facts.fn_nodes(g.f):
            if n["k"] in ("CXXMemberCallExpr", "CallExpr") and n.get("callee") and not n.get("ext"):
                cg = call_guards(g.f, n)
                if cg:
                    p = g.pos(n)
                    if p is not None:
                        res.append((p, cg))
        g._ghcalls = res
    return g._ghcalls


def guards_facts(g, pos):
    """all atoms that hold at CFG position pos (from dominating branch edges and dominating guard-helper calls)"""
    out = []
    for cond, pol, blk in g.guards_at(pos):
        out += facts_of(g.f, cond, pol)
    for p, cg in helper_calls(g):
        if p != pos and g.before_on_all_paths(p, pos):
            for c, pol in cg:
                out += facts_of(g.f, c, pol)
    # a position only reachable through `case K:` of a switch on E is guarded by E == K (an if-chain spelled as a switch)
    for sc, label, blk in g.switch_cases_at(pos):
        if sc is not None and label is not None and label.get("k") == "CaseStmt" and label.get("c") and facts.cval(label["c"][0]) is not None:
            out.append(("==", sc, label["c"][0]))
    return out
