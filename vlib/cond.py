"""Normal forms of branch conditions.

facts_of(f, cond, polarity) -> list of atoms that hold when `cond` evaluated to
`polarity`.  Atom = (op, lhs node, rhs node) with op in <,<=,>,>=,==,!= ,
or ("true", node, None) / ("false", node, None) for a bare boolean test.
Looks through !, !!, __builtin_expect (TINS_LIKELY/UNLIKELY), parentheses and
boolean conversions; && under True and || under False are split.
"""
from . import facts
from .facts import strip

NEG = {"<": ">=", "<=": ">", ">": "<=", ">=": "<", "==": "!=", "!=": "=="}
SWAP = {"<": ">", "<=": ">=", ">": "<", ">=": "<=", "==": "==", "!=": "!="}


def peel(n):
    """strip wrappers that do not change truth value; returns (node, negated)"""
    neg = False
    while True:
        n = strip(n)
        k = n["k"]
        if k == "UnaryOperator" and n.get("op") == "!":
            neg = not neg
            n = n["c"][0]
            continue
        if k == "CallExpr" and n.get("cname") == "__builtin_expect" and len(n.get("c", [])) >= 2:
            n = n["c"][1]
            continue
        if k in ("CStyleCastExpr", "CXXStaticCastExpr", "CXXFunctionalCastExpr") and n.get("c"):
            t = n.get("ck")
            if t in ("IntegralToBoolean", "NoOp", "IntegralCast", "PointerToBoolean"):
                n = n["c"][0]
                continue
        if k == "ImplicitCastExpr":
            n = n["c"][0]
            continue
        return n, neg


def facts_of(f, cond, polarity):
    n, neg = peel(cond)
    pol = polarity != neg
    k = n["k"]
    if k == "BinaryOperator":
        op = n["op"]
        if op == "&&":
            if pol:
                return facts_of(f, n["c"][0], True) + facts_of(f, n["c"][1], True)
            return []
        if op == "||":
            if not pol:
                return facts_of(f, n["c"][0], False) + facts_of(f, n["c"][1], False)
            return []
        if op in NEG:
            o = op if pol else NEG[op]
            return [(o, n["c"][0], n["c"][1])]
    if k == "CXXOperatorCallExpr" and n.get("op") in NEG and len(n["c"]) == 3:
        o = n["op"] if pol else NEG[n["op"]]
        return [(o, n["c"][1], n["c"][2])]
    return [("true" if pol else "false", n, None)]


def guards_facts(g, pos):
    """all atoms that hold at CFG position pos (from dominating branch edges)"""
    out = []
    for cond, pol, blk in g.guards_at(pos):
        out += facts_of(g.f, cond, pol)
    return out
