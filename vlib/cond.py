"""Normal forms of branch conditions.

facts_of(f, cond, polarity) -> list of atoms that hold when `cond` evaluated to
`polarity`.  Atom = (op, lhs node, rhs node) with op in <,<=,>,>=,==,!= ,
or ("true", node, None) / ("false", node, None) for a bare boolean test.
Looks through !, !!, __builtin_expect (TINS_LIKELY/UNLIKELY), parentheses and
boolean conversions; && under True and || under False are split.
"""
from . import facts
from .facts import strip

NEG = {"<": ">=", "<=": ">", ">": "<=", ">=": "<", "==": "!=", "!=": "=="}
SWAP = {"<": ">", "<=": ">=", ">": "<", ">=": "<=", "==": "==", "!=": "!="}


def peel(n):
    """strip wrappers that do not change truth value; returns (node, negated)"""
    neg = False
    while True:
        n = strip(n)
        k = n["k"]
        if k == "UnaryOperator" and n.get("op") == "!":
            neg = not neg
            n = n["c"][0]
            continue
        if k == "CallExpr" and n.get("cname") == "__builtin_expect" and len(n.get("c", [])) >= 2:
            n = n["c"][1]
            continue
        if k in ("CStyleCastExpr", "CXXStaticCastExpr", "CXXFunctionalCastExpr") and n.get("c"):
            t = n.get("ck")
            if t in ("IntegralToBoolean", "NoOp", "IntegralCast", "PointerToBoolean"):
                n = n["c"][0]
                continue
        if k == "ImplicitCastExpr":
            n = n["c"][0]
            continue
        return n, neg


def facts_of(f, cond, polarity):
    n, neg = peel(cond)
    pol = polarity != neg
    k = n["k"]
    if k == "BinaryOperator":
        op = n["op"]
        if op == "&&":
            if pol:
                return facts_of(f, n["c"][0], True) + facts_of(f, n["c"][1], True)
            return []
        if op == "||":
            if not pol:
                return facts_of(f, n["c"][0], False) + facts_of(f, n["c"][1], False)
            return []
        if op in NEG:
            o = op if pol else NEG[op]
            return [(o, n["c"][0], n["c"][1])]
    if k == "CXXOperatorCallExpr" and n.get("op") in NEG and len(n["c"]) == 3:
        o = n["op"] if pol else NEG[n["op"]]
        return [(o, n["c"][1], n["c"][2])]
    out = [("true" if pol else "false", n, None)]
    # a named boolean local (`const bool got = pkt_.pdu() != 0; if (got)`) tests what it was initialised with, provided nothing
    # it reads is written again further down the function
    if k == "DeclRefExpr" and n.get("var") and not n.get("parm") and not n.get("glob"):
        init = fresh_bool_local(f, n["var"])
        if init is not None:
            out = out + facts_of(f, init, pol)
    # a named predicate (`bool uses_big_buffer() const { return real_size_ > small_buffer_size; }`) tests what it
    # returns: the returned expression, read in the caller's terms, holds (or fails) with the call
    if k in ("CXXMemberCallExpr", "CallExpr") and n.get("callee") and not n.get("ext") and not n.get("grafted_pred"):
        key = (id(f), n["id"], pol)
        if key not in _PRED:
            _PRED[key] = []
            pe = predicate_return(facts.db_of(f), n["callee"])
            if pe is not None and pe[0] is not f:
                try:
                    e = graft(pe[0], f, pe[1], n)
                    _PRED[key] = facts_of(f, e, pol)
                except (KeyError, RecursionError):
                    _PRED[key] = []
        out = out + _PRED[key]
    return out


_PRED = {}
_PRET = {}
_FBL = {}


def fresh_bool_local(f, var):
    """initialiser of the single-assignment boolean local `var` when no variable / member it reads is assigned after the
    declaration (in source order), else None"""
    key = (id(f), var)
    if key in _FBL:
        return _FBL[key]
    _FBL[key] = None
    sa = facts.single_assign(f)
    if var not in sa:
        return None
    vd = [x for x in facts.fn_nodes(f) if x["k"] == "VarDecl" and x.get("var") == var]
    if not vd or (facts.tyi(f, vd[0].get("t")) or {}).get("k") != "bool":
        return None
    init = sa[var]
    reads = set()
    for x in facts.walk(init):
        if x["k"] == "DeclRefExpr" and x.get("var"):
            reads.add(("v", x["var"]))
        if x["k"] == "MemberExpr" and x.get("member"):
            reads.add(("m", x["member"]))
        if x["k"] in ("CompoundAssignOperator", "CXXNewExpr", "CXXDeleteExpr") or (x["k"] == "BinaryOperator" and x.get("op") == "=") or \
                (x["k"] == "UnaryOperator" and x.get("op") in ("++", "--")):
            return None
    line = vd[0].get("l") or 0
    for x in facts.fn_nodes(f):
        if (x.get("l") or 0) <= line:
            continue
        lhs = None
        if x["k"] in ("BinaryOperator", "CompoundAssignOperator") and (x["k"] == "CompoundAssignOperator" or x.get("op") == "="):
            lhs = x["c"][0]
        elif x["k"] == "UnaryOperator" and x.get("op") in ("++", "--"):
            lhs = x["c"][0]
        elif x["k"] == "CXXOperatorCallExpr" and x.get("op") in ("=", "+=", "-=", "++", "--") and len(x["c"]) >= 2:
            lhs = x["c"][1]
        if lhs is None:
            continue
        for y in facts.walk(lhs):
            if (y["k"] == "DeclRefExpr" and ("v", y.get("var")) in reads) or (y["k"] == "MemberExpr" and ("m", y.get("member")) in reads):
                return None
    _FBL[key] = init
    return init


def predicate_return(db, callee):
    """(helper, EXPR) when `callee` is a library function whose whole body is `return EXPR;` of boolean type, with no side
    effect in EXPR and reading only its parameters, *this (const member) and constants; else None"""
    if db is None or not callee:
        return None
    key = (id(db), callee)
    if key in _PRET:
        return _PRET[key]
    _PRET[key] = None
    h = db.fn(callee)
    if h is None or not h.get("body") or h.get("virtual") or h.get("kind") in ("ctor", "dtor") or \
            not (h.get("file") or "").startswith(("src/", "include/tins")):
        return None
    if (facts.tyi(h, h.get("ret")) or {}).get("k") != "bool":
        return None
    if h.get("rec") and not (h.get("id") or "").rstrip().endswith("const"):
        return None
    st = [x for x in h["body"].get("c", []) if x is not None]
    if len(st) != 1 or st[0]["k"] != "ReturnStmt" or not st[0].get("c"):
        return None
    pvars = set(p.get("var") for p in h.get("params", ()))
    cnt = 0
    for x in facts.walk(st[0]["c"][0]):
        cnt += 1
        kx = x["k"]
        if kx in MUTATING or kx in ("CXXThrowExpr", "CXXConstructExpr", "CXXTemporaryObjectExpr") or \
                (kx == "BinaryOperator" and x.get("op") == "=") or (kx == "UnaryOperator" and x.get("op") in ("++", "--")):
            return None
        if kx == "CXXMemberCallExpr" and not (x.get("callee") or "").rstrip().endswith("const"):
            return None
        if kx == "DeclRefExpr" and x.get("var") is not None and x.get("var") not in pvars and not x.get("glob") and "v" not in x \
                and not x.get("enumc"):
            return None
    if cnt > 40:
        return None
    _PRET[key] = (h, st[0]["c"][0])
    return _PRET[key]


# ---------------------------------------------------------------------------------------------- guard helpers
# A guard helper is a function whose only effect is to throw unless a condition over its parameters and *this holds
# (`void ensure(n) const { if (!can_read(n)) throw malformed_packet(); }`).  A call to one is the same guard as the
# `if` written out at the call site: the helper's condition is grafted into the caller (parameters -> arguments,
# this -> receiver) and holds wherever the call dominates.
_GH = {}
_GRAFT = {}
_NEXT_ID = [100000000]
MUTATING = ("CompoundAssignOperator", "CXXNewExpr", "CXXDeleteExpr", "LambdaExpr")


def guard_helper(db, callee):
    """[(condition node, polarity)] that hold on every normal return of `callee`, or None"""
    if db is None or not callee:
        return None
    key = (id(db), callee)
    if key in _GH:
        return _GH[key]
    _GH[key] = None
    h = db.fn(callee)
    if h is None or not h.get("body") or not h.get("cfg") or h.get("virtual") or h.get("kind") in ("ctor", "dtor"):
        return None
    from . import cfg as _cfg
    nodes = list(facts.fn_nodes(h))
    if len(nodes) > 60:
        return None
    under_throw = set()
    for n in nodes:
        if n["k"] == "CXXThrowExpr":
            under_throw.update(x["id"] for x in facts.walk(n))
    pvars = set(p.get("var") for p in h.get("params", ()))
    for n in nodes:
        if n["id"] in under_throw:
            continue
        k = n["k"]
        if k in MUTATING or (k == "BinaryOperator" and n.get("op") == "=") or (k == "UnaryOperator" and n.get("op") in ("++", "--")) or \
                k in ("ForStmt", "WhileStmt", "DoStmt", "CXXForRangeStmt", "DeclStmt", "CXXTryStmt"):
            return None
        if k in ("CallExpr", "CXXOperatorCallExpr", "CXXConstructExpr", "CXXTemporaryObjectExpr"):
            if not (k == "CallExpr" and n.get("cname") == "__builtin_expect"):
                return None
        if k == "CXXMemberCallExpr" and not (n.get("callee") or "").endswith(" const"):
            return None
        if k == "DeclRefExpr" and n.get("var") is not None and n.get("var") not in pvars and not n.get("glob"):
            return None
    try:
        g = _cfg.FnCFG(h)
    except facts.AnalysisBroken:
        return None
    normal = [(b["id"], k_) for b in g.blocks.values() if b["id"] not in g.throws
              for k_, s_ in enumerate(b["s"]) if s_ == g.exit]
    if len(normal) != 1:
        return None
    pb, pk = normal[0]
    gs = [(c, pol) for c, pol, _ in g.guards_at((pb, 0))]
    b = g.blocks[pb]
    if len(b["s"]) == 2 and b.get("cond") is not None and b.get("termk") != "SwitchStmt" and b["s"][0] != b["s"][1]:
        c = g.idx.get(b["cond"])
        if c is not None:
            gs.append((c, pk == 0))
    if not gs:
        return None
    _GH[key] = (h, gs)
    return _GH[key]


def graft(h, f, node, call):
    """copy of helper node `node` that reads as an expression of caller f at `call`"""
    from . import cfg as _cfg
    pv = dict((p.get("var"), i) for i, p in enumerate(h.get("params", ())))
    args = _cfg.args(call)
    recv = _cfg.receiver(call) if call["k"] == "CXXMemberCallExpr" else None
    ht, ft = h.get("_types"), f.get("_types")
    tmap = {}

    def ty(t):
        if t is None or t < 0 or ht is ft:
            return t
        if t not in tmap:
            ft.append(ht[t])
            tmap[t] = len(ft) - 1
        return tmap[t]

    def cp(n):
        if not isinstance(n, dict):
            return n
        if n["k"] == "DeclRefExpr" and n.get("var") in pv:
            i = pv[n["var"]]
            if i >= len(args):
                raise KeyError("default argument")
            return args[i]
        if n["k"] == "CXXThisExpr":
            if recv is None:
                raise KeyError("no receiver")
            return recv
        m = dict(n)
        _NEXT_ID[0] += 1
        m["id"] = _NEXT_ID[0]
        m["grafted"] = True
        if "t" in m:
            m["t"] = ty(m["t"])
        if "c" in m:
            m["c"] = [cp(c) for c in m["c"]]
        return m
    return cp(node)


def call_guards(f, call, db=None):
    """[(grafted condition, polarity)] established by a call to a guard helper ([] for any other call)"""
    key = (id(f), call["id"])
    if key in _GRAFT:
        return _GRAFT[key]
    out = []
    if call["k"] in ("CXXMemberCallExpr", "CallExpr") and call.get("callee"):
        db = db or facts.db_of(f)
        gh = guard_helper(db, call["callee"])
        if gh:
            h, gs = gh
            if h is not f:
                try:
                    out = [(graft(h, f, c, call), pol) for c, pol in gs]
                except KeyError:
                    out = []
    _GRAFT[key] = out
    return out


def helper_calls(g):
    """[(position, [(grafted condition, polarity)])] for the guard-helper calls of g's function"""
    if getattr(g, "_ghcalls", None) is None:
        res = []
        for n in facts.fn_nodes(g.f):
            if n["k"] in ("CXXMemberCallExpr", "CallExpr") and n.get("callee") and not n.get("ext"):
                cg = call_guards(g.f, n)
                if cg:
                    p = g.pos(n)
                    if p is not None:
                        res.append((p, cg))
        g._ghcalls = res
    return g._ghcalls


def guards_facts(g, pos):
    """all atoms that hold at CFG position pos (from dominating branch edges and dominating guard-helper calls)"""
    out = []
    for cond, pol, blk in g.guards_at(pos):
        out += facts_of(g.f, cond, pol)
    for p, cg in helper_calls(g):
        if p != pos and g.before_on_all_paths(p, pos):
            for c, pol in cg:
                out += facts_of(g.f, c, pol)
    # a position only reachable through `case K:` of a switch on E is guarded by E == K (an if-chain spelled as a switch)
    for sc, label, blk in g.switch_cases_at(pos):
        if sc is not None and label is not None and label.get("k") == "CaseStmt" and label.get("c") and facts.cval(label["c"][0]) is not None:
            out.append(("==", sc, label["c"][0]))
    return out
