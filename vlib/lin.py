"""Linear expressions over symbolic atoms and a small inequality prover.

Lin = sum(coef * atom) + const, immutable, hashable.  Atoms are tuples; all atoms
denote NON-NEGATIVE quantities unless registered as signed (sizes, unsigned
values, ghost initial values of unsigned parameters, remaining-bytes of cursors).
A fact is a Lin L meaning L >= 0.
"""


class Lin(object):
    __slots__ = ("t", "k", "_h")

    def __init__(self, terms=None, const=0):
        if terms:
            self.t = tuple(sorted((a, c) for a, c in terms.items() if c != 0))
        else:
            self.t = ()
        self.k = const
        self._h = hash((self.t, self.k))

    def __hash__(self):
        return self._h

    def __eq__(self, o):
        return isinstance(o, Lin) and self.t == o.t and self.k == o.k

    def terms(self):
        return dict(self.t)

    def __add__(self, o):
        if isinstance(o, int):
            return Lin(dict(self.t), self.k + o)
        d = dict(self.t)
        for a, c in o.t:
            d[a] = d.get(a, 0) + c
        return Lin(d, self.k + o.k)

    def __sub__(self, o):
        if isinstance(o, int):
            return Lin(dict(self.t), self.k - o)
        d = dict(self.t)
        for a, c in o.t:
            d[a] = d.get(a, 0) - c
        return Lin(d, self.k - o.k)

    def scale(self, m):
        return Lin(dict((a, c * m) for a, c in self.t), self.k * m)

    def atoms(self):
        return [a for a, _ in self.t]

    def mentions(self, pred):
        for a, _ in self.t:
            if pred(a):
                return True
            if a[0] == "mem" and len(a) > 2 and any(pred(x) for x in a[2]):
                return True     # a memory read through a pointer that depends on such an atom
        return False

    def subst(self, atom, repl):
        """replace atom by Lin repl"""
        d = dict(self.t)
        c = d.pop(atom, 0)
        if c == 0:
            return self
        return Lin(d, self.k) + repl.scale(c)

    def is_const(self):
        return not self.t

    def __repr__(self):
        parts = []
        for a, c in self.t:
            nm = atom_str(a)
            parts.append(("%s" % nm) if c == 1 else ("-%s" % nm if c == -1 else "%d*%s" % (c, nm)))
        if self.k or not parts:
            parts.append(str(self.k))
        return " + ".join(parts).replace("+ -", "- ")


def atom_str(a):
    if a[0] == "av":
        return "avail(%s)" % a[1].split("#")[0]
    if a[0] == "p0":
        return "%s0" % a[1].split("#")[0]
    if a[0] == "ld":
        return "%s@%s" % (a[2] if len(a) > 2 else "v", a[1])
    if a[0] == "phi":
        return "phi(%s)" % a[2].split("#")[0]
    if a[0] == "mem":
        return "mem[%s]" % a[1]
    return ":".join(str(x).split("#")[0] for x in a)


def const(k):
    return Lin(None, k)


def atom(a):
    return Lin({a: 1}, 0)


class Prover(object):
    """prove G >= 0 from facts (each F >= 0), non-negativity of atoms and upper
    bounds of atoms (ub: atom -> int)."""

    def __init__(self, facts, signed=(), ub=None):
        self.facts = list(facts)
        self.signed = set(signed)
        self.ub = ub or {}

    def trivially(self, G):
        if G.k < 0:
            # negative constant may be compensated only by facts
            return False
        for a, c in G.t:
            if c < 0:
                return False
            if a in self.signed:
                return False
        return True

    def prove(self, G, depth=3, used=()):
        if self.trivially(G):
            return True
        # use type upper bounds for atoms with negative coefficients:  c*a >= c*ub  when c<0
        neg = [(a, c) for a, c in G.t if c < 0 and a in self.ub]
        if neg:
            G2 = G
            for a, c in neg:
                G2 = G2.subst(a, const(self.ub[a]))
            if self.trivially(G2):
                return True
        if depth == 0:
            return False
        ga = set(G.atoms())
        for i, F in enumerate(self.facts):
            if i in used:
                continue
            # only facts sharing an atom with the goal, with a helpful sign
            fa = F.terms()
            useful = False
            gt = G.terms()
            for a, c in gt.items():
                if c < 0 and fa.get(a, 0) < 0:
                    useful = True
                if c > 0 and fa.get(a, 0) > 0 and (G.k < 0 or a in self.signed):
                    useful = True
            if not useful:
                continue
            ms = [1]
            for a, c in gt.items():
                fc = fa.get(a, 0)
                if fc and c % fc == 0 and c // fc > 1 and c // fc not in ms:
                    ms.append(c // fc)        # the multiple of F that cancels atom a in G
            if 2 not in ms and any(abs(c) > 1 for _, c in G.t):
                ms.append(2)
            for m in ms[:4]:
                if self.prove(G - F.scale(m), depth - 1, used + (i,)):
                    return True
        return False
