"""Boolean-formula reading of small predicate functions.

A function whose control structure only tests side-effect-free conditions is a
Boolean function of those conditions ("atoms").  truth_table() enumerates every
assignment of the atoms, walks the clang CFG under it and records what the
function returns; the caller compares the table with the formula the property
statement fixes.  Values are only touched through the comparisons, so the table
is complete.
"""
import itertools

from . import facts, cfg
from .facts import strip

CMP_NEG = {"!=": "==", ">=": "<", "<=": ">", }


def peel(n):
    neg = False
    while True:
        n = strip(n)
        k = n["k"]
        if k == "UnaryOperator" and n.get("op") == "!":
            neg = not neg
            n = n["c"][0]
            continue
        if k == "CallExpr" and n.get("cname") == "__builtin_expect" and len(n.get("c", [])) >= 2:
            n = n["c"][1]
            continue
        if k in ("CStyleCastExpr", "CXXStaticCastExpr", "CXXFunctionalCastExpr", "ImplicitCastExpr") and n.get("c"):
            n = n["c"][0]
            continue
        return n, neg


def atom_key(n):
    """(key, polarity) of a leaf condition"""
    n, neg = peel(n)
    k = n["k"]
    if k in ("BinaryOperator", "CXXOperatorCallExpr") and n.get("op") in ("==", "!=", "<", ">", "<=", ">="):
        cs = n["c"] if k == "BinaryOperator" else n["c"][1:]
        a, b = facts.expr_str(cs[0]), facts.expr_str(cs[1])
        op = n["op"]
        if op in ("==", "!="):
            if b < a:
                a, b = b, a
            key = "%s == %s" % (a, b)
            pol = (op == "==")
        else:
            # normalise to "x < y"
            if op == "<":
                key, pol = "%s < %s" % (a, b), True
            elif op == ">":
                key, pol = "%s < %s" % (b, a), True
            elif op == ">=":
                key, pol = "%s < %s" % (a, b), False
            else:
                key, pol = "%s < %s" % (b, a), False
        return key, pol != neg
    return facts.expr_str(n), not neg


def leaves(n, out):
    n0, _ = peel(n)
    if n0["k"] == "BinaryOperator" and n0.get("op") in ("&&", "||"):
        leaves(n0["c"][0], out)
        leaves(n0["c"][1], out)
    elif n0["k"] == "ConditionalOperator":
        for c in n0["c"]:
            leaves(c, out)
    elif n0["k"] in ("CXXBoolLiteralExpr", "IntegerLiteral"):
        pass
    else:
        out.append(atom_key(n)[0])


def ev(n, env):
    """evaluate boolean expression n under env {atom key: bool}"""
    n0, neg = peel(n)
    k = n0["k"]
    if k == "BinaryOperator" and n0.get("op") == "&&":
        v = ev(n0["c"][0], env) and ev(n0["c"][1], env)
    elif k == "BinaryOperator" and n0.get("op") == "||":
        v = ev(n0["c"][0], env) or ev(n0["c"][1], env)
    elif k == "ConditionalOperator":
        v = ev(n0["c"][1], env) if ev(n0["c"][0], env) else ev(n0["c"][2], env)
    elif k in ("CXXBoolLiteralExpr", "IntegerLiteral"):
        v = bool(n0.get("v"))
    else:
        key, pol = atom_key(n0)
        if key not in env:
            raise KeyError(key)
        v = env[key] if pol else not env[key]
    return (not v) if neg else v


def flag_locals(f):
    """{var: name} of the boolean locals of f that are assigned after their declaration (result flags such as `all_acked`),
    every value stored being a boolean expression: their value is part of the STATE a table walk carries along"""
    sa = facts.single_assign(f)
    out = {}
    for n in facts.fn_nodes(f):
        if n["k"] == "VarDecl" and n.get("var") and n["var"] not in sa and (facts.tyi(f, n.get("t")) or {}).get("k") == "bool" and n.get("c"):
            out[n["var"]] = n.get("name")
    for n in facts.fn_nodes(f):
        if n["k"] in ("CompoundAssignOperator",) or (n["k"] == "UnaryOperator" and n.get("op") in ("++", "--")):
            l = facts.strip_all(n["c"][0])
            if l["k"] == "DeclRefExpr" and l.get("var") in out:
                del out[l["var"]]
    return out


def flag_stores(f, flags):
    """[(node, var, value expr)] for declarations-with-initialiser of, and plain assignments to, the flag locals"""
    res = []
    for n in facts.fn_nodes(f):
        if n["k"] == "VarDecl" and n.get("var") in flags and n.get("c"):
            res.append((n, n["var"], n["c"][0]))
        if n["k"] == "BinaryOperator" and n.get("op") == "=":
            l = facts.strip_all(n["c"][0])
            if l["k"] == "DeclRefExpr" and l.get("var") in flags:
                res.append((n, l["var"], n["c"][1]))
    return res


def atoms_of(f, body=None, prep=None):
    out = []
    g = cfg.FnCFG(f)
    prep = prep or (lambda e: e)
    flags = flag_locals(f)
    for _, _, val in flag_stores(f, flags):
        leaves(prep(val), out)
    out = [k for k in out if k not in flags.values()]
    for b in g.blocks.values():
        if len(b["s"]) == 2 and b.get("cond") is not None and b.get("termk") != "SwitchStmt":
            c = g.idx.get(b["cond"])
            if c is not None:
                leaves(prep(c), out)
    for n in facts.fn_nodes(f):
        if n["k"] == "ReturnStmt" and n.get("c"):
            t = facts.ty(f, n["c"][0])
            if t and t.get("k") == "bool":
                leaves(prep(n["c"][0]), out)
    seen = []
    for k in out:
        if k not in seen and k not in flags.values():
            seen.append(k)
    return seen


def truth_table(f, atoms=None, classify=None, max_atoms=10, effects=None, prep=None):
    """{assignment tuple: result}; result = classify(return node, env) or the boolean value returned.
    Raises AnalysisBroken when the function is not a pure predicate of its atoms.
    prep(expr) -> expr is applied to every condition / returned expression first (see reader())."""
    g = cfg.FnCFG(f)
    prep = prep or (lambda e: e)
    atoms = atoms or atoms_of(f, prep=prep)
    if len(atoms) > max_atoms:
        raise facts.AnalysisBroken("%s tests %d conditions: too many for a truth table" % (f["id"], len(atoms)))
    table = {}
    flags = flag_locals(f)
    stores = dict((id(n_), (v_, e_)) for n_, v_, e_ in flag_stores(f, flags))
    decl_of = dict((n_["id"], n_) for n_, v_, e_ in flag_stores(f, flags) if n_["k"] == "VarDecl")
    for vals in itertools.product((False, True), repeat=len(atoms)):
        env = dict(zip(atoms, vals))
        b = g.entry
        steps = 0
        res = None
        eff = []
        visited = set()
        while True:
            steps += 1
            if steps > 400:
                res = "<loop>"
                break
            if flags:
                # with result flags carried along, coming back to a block in the same flag state is a cycle
                sig = (b, tuple(sorted((k_, v_) for k_, v_ in env.items() if k_ in flags.values())))
                if sig in visited:
                    res = "<loop>"
                    break
                visited.add(sig)
            blk = g.blocks[b]
            ret = None
            for e in blk["e"]:
                n = g.idx.get(e)
                if flags and n is not None:
                    tgt = n
                    if n["k"] == "DeclStmt":
                        for d_ in n.get("c", []):
                            if id(d_) in stores:
                                tgt = d_
                    if id(tgt) in stores:
                        var_, val_ = stores[id(tgt)]
                        try:
                            env[flags[var_]] = ev(prep(val_), env)
                        except KeyError as ke:
                            raise facts.AnalysisBroken("%s stores `%s` in a flag, which is not among the enumerated conditions" % (f["id"], ke))
                if n is not None and n["k"] == "ReturnStmt":
                    ret = n
                if n is not None and effects is not None:
                    lab = effects(n)
                    if lab is not None:
                        eff.append(lab)
            term = g.idx.get(blk.get("term")) if blk.get("term") is not None else None
            if term is not None and term["k"] == "ReturnStmt":
                ret = term
            if ret is not None:
                if classify is not None:
                    res = classify(ret, env)
                else:
                    res = ev(prep(ret["c"][0]), env) if ret.get("c") else None
                break
            if b in g.throws:
                res = "<throw>"
                break
            ss = [s for s in blk["s"]]
            if len(ss) == 2 and blk.get("cond") is not None and blk.get("termk") != "SwitchStmt":
                c = prep(g.idx.get(blk["cond"]))
                try:
                    v = ev(c, env)
                except KeyError as ke:
                    raise facts.AnalysisBroken("%s branches on `%s`, which is not among the enumerated conditions" % (f["id"], ke))
                b = ss[0] if v else ss[1]
                if b is None:
                    res = "<unreachable>"
                    break
            elif len(ss) >= 1 and ss[0] is not None:
                b = ss[0]
            else:
                res = "<end>"
                break
        if effects is not None:
            res = (res, tuple(eff))
        table[vals] = res
    return atoms, table


def ev3(n, env):
    """three-valued ev: atoms missing from env are unknown (None)"""
    n0, neg = peel(n)
    k = n0["k"]
    if k == "BinaryOperator" and n0.get("op") in ("&&", "||"):
        a, b = ev3(n0["c"][0], env), ev3(n0["c"][1], env)
        if n0["op"] == "&&":
            v = False if (a is False or b is False) else (True if (a is True and b is True) else None)
        else:
            v = True if (a is True or b is True) else (False if (a is False and b is False) else None)
    elif k == "ConditionalOperator":
        c = ev3(n0["c"][0], env)
        if c is None:
            x, y = ev3(n0["c"][1], env), ev3(n0["c"][2], env)
            v = x if x == y else None
        else:
            v = ev3(n0["c"][1], env) if c else ev3(n0["c"][2], env)
    elif k in ("CXXBoolLiteralExpr", "IntegerLiteral"):
        v = bool(n0.get("v"))
    else:
        key, pol = atom_key(n0)
        if key not in env:
            v = None
        else:
            v = env[key] if pol else not env[key]
    if v is None:
        return None
    return (not v) if neg else v


def reach_table(f, target, is_role_atom, max_atoms=8):
    """(atoms, {assignment: bool}): for every assignment of the branch-condition atoms selected by is_role_atom(key), can
    the CFG position `target` be reached from the entry when every OTHER condition may go either way?  However the
    control flow is spelled (nested ifs, early returns, inverted tests, named bool locals), the table is the same."""
    g = cfg.FnCFG(f)
    loc = bool_locals(f)
    conds = {}
    atoms = []
    for b in g.blocks.values():
        if len(b["s"]) == 2 and b.get("cond") is not None and b.get("termk") != "SwitchStmt":
            c = g.idx.get(b["cond"])
            if c is not None:
                e = expand(f, c, loc)
                conds[b["id"]] = e
                ls = []
                leaves(e, ls)
                for a in ls:
                    if is_role_atom(a) and a not in atoms:
                        atoms.append(a)
    if len(atoms) > max_atoms:
        raise facts.AnalysisBroken("%s: %d relevant conditions, too many for a table" % (f["id"], len(atoms)))
    table = {}
    for vals in itertools.product((False, True), repeat=len(atoms)):
        env = dict(zip(atoms, vals))
        seen, stack, hit = set(), [g.entry], False
        while stack:
            b = stack.pop()
            if b in seen:
                continue
            seen.add(b)
            if b == target[0]:
                hit = True
                break
            blk = g.blocks[b]
            if b in g.throws:
                continue
            ss = blk["s"]
            if b in conds and len(ss) == 2:
                v = ev3(conds[b], env)
                nxt = [ss[0]] if v is True else ([ss[1]] if v is False else list(ss))
            else:
                nxt = list(ss)
            stack.extend(x for x in nxt if x is not None)
        table[vals] = hit
    return atoms, table


def must_table(f, target, is_role_atom, max_atoms=8):
    """(atoms, {assignment: bool}): for every assignment of the role atoms, is `target` passed on EVERY path from the entry
    to a normal exit when every other condition may go either way?  (the dual of reach_table)"""
    g = cfg.FnCFG(f)
    loc = bool_locals(f)
    conds = {}
    atoms = []
    for b in g.blocks.values():
        if len(b["s"]) == 2 and b.get("cond") is not None and b.get("termk") != "SwitchStmt":
            c = g.idx.get(b["cond"])
            if c is not None:
                e = expand(f, c, loc)
                conds[b["id"]] = e
                ls = []
                leaves(e, ls)
                for a in ls:
                    if is_role_atom(a) and a not in atoms:
                        atoms.append(a)
    if len(atoms) > max_atoms:
        raise facts.AnalysisBroken("%s: %d relevant conditions, too many for a table" % (f["id"], len(atoms)))
    table = {}
    for vals in itertools.product((False, True), repeat=len(atoms)):
        env = dict(zip(atoms, vals))
        seen, stack, escaped = set(), [g.entry], False
        while stack:
            b = stack.pop()
            if b in seen or b == target[0]:
                continue
            seen.add(b)
            if b == g.exit:
                escaped = True
                break
            blk = g.blocks[b]
            if b in g.throws:
                continue
            ss = blk["s"]
            if b in conds and len(ss) == 2:
                v = ev3(conds[b], env)
                nxt = [ss[0]] if v is True else ([ss[1]] if v is False else list(ss))
            else:
                nxt = list(ss)
            stack.extend(x for x in nxt if x is not None)
        table[vals] = not escaped
    return atoms, table


def bool_locals(f):
    """single-assignment bool locals -> initialiser"""
    from . import bits
    sa = bits.Bounds(f, False).single_assign()
    out = {}
    for n in facts.fn_nodes(f):
        if n["k"] == "VarDecl" and n.get("c") and n["var"] in sa:
            t = facts.tyi(f, n.get("t"))
            if t and t.get("k") == "bool":
                out[n["var"]] = n["c"][0]
    return out


def expand(f, n, loc, depth=0):
    """replace references to bool locals by their initialisers (returns a new light tree)"""
    n0, neg = peel(n)
    if n0["k"] == "DeclRefExpr" and n0.get("var") in loc and depth < 5:
        inner = expand(f, loc[n0["var"]], loc, depth + 1)
        return {"id": -1, "k": "UnaryOperator", "op": "!", "c": [inner]} if neg else inner
    if n0["k"] == "BinaryOperator" and n0.get("op") in ("&&", "||"):
        m = {"id": n0["id"], "k": "BinaryOperator", "op": n0["op"],
             "c": [expand(f, n0["c"][0], loc, depth), expand(f, n0["c"][1], loc, depth)]}
        return {"id": -1, "k": "UnaryOperator", "op": "!", "c": [m]} if neg else m
    return n


def expr_table(f, expr):
    """(atoms, {assignment: bool}) for one boolean expression, bool locals expanded"""
    e = expand(f, expr, bool_locals(f))
    atoms = []
    leaves(e, atoms)
    seen = []
    for a in atoms:
        if a not in seen:
            seen.append(a)
    table = {}
    for vals in itertools.product((False, True), repeat=len(seen)):
        table[vals] = ev(e, dict(zip(seen, vals)))
    return seen, table


def compare(atoms, table, roles, want):
    """roles: {role name: predicate(atom key)}; want: function(dict role->bool) -> expected result.
    Returns (ok, message)."""
    role_of = {}
    for a in atoms:
        for r, pred in roles.items():
            if pred(a):
                role_of[a] = r
    missing = [r for r in roles if r not in role_of.values()]
    if missing:
        return False, "does not test %s (conditions found: %s)" % (missing, atoms)
    for vals, res in table.items():
        env = {}
        consistent = True
        for a, v in zip(atoms, vals):
            r = role_of.get(a)
            if r is None:
                continue
            if r in env and env[r] != v:
                consistent = False      # two atoms of the same role with different values: not a real situation
            env[r] = v
        if not consistent:
            continue
        w = want(env)
        if res != w:
            return False, "under %s it yields %s, the statement requires %s" % (dict(zip(atoms, vals)), res, w)
    return True, "%d rows agree" % len(table)


# ---------------------------------------------------------------------------------------------- reading through names
_HELPER = {}
_NEXT = [200000000]


def predicate_expr(db, callee):
    """(function, expression tree) when `callee` is a file-local free predicate made only of if / return statements - the
    boolean expression it computes (`if (c) return a; return b;` -> `c ? a : b`) - else None"""
    key = (id(db), callee)
    if key in _HELPER:
        return _HELPER[key]
    _HELPER[key] = None
    h = db.fn(callee) if callee else None
    if h is None or not h.get("body") or (facts.tyi(h, h.get("ret")) or {}).get("k") != "bool" or \
            not (h.get("file") or "").startswith("src/") or h.get("rec") or facts._named_in_headers(db, h.get("name")):
        return None        # only free functions private to a source file: an API predicate is an atom of its own

    def conv(stmts):
        stmts = [x for x in stmts if x is not None]
        if not stmts:
            return None
        s0 = stmts[0]
        if s0["k"] == "CompoundStmt":
            return conv(list(s0.get("c", [])) + stmts[1:])
        if s0["k"] == "ReturnStmt":
            return s0["c"][0] if s0.get("c") else None
        if s0["k"] == "IfStmt":
            real = [x for x in s0["c"] if x is not None]
            a = conv([real[1]] + stmts[1:])
            b = conv(([real[2]] if len(real) > 2 else []) + stmts[1:])
            if a is None or b is None:
                return None
            _NEXT[0] += 1
            return {"id": _NEXT[0], "k": "ConditionalOperator", "c": [real[0], a, b], "l": s0.get("l")}
        return None
    e = conv([h["body"]])
    if e is None:
        return None
    _HELPER[key] = (h, e)
    return _HELPER[key]


def reader(db, f):
    """prep function for truth_table / expr_table: integer locals assigned once are replaced by their initialisers and
    calls of library predicates by the boolean expression they compute (parameters -> arguments), so that the atoms are
    the real tests, not the names a refactoring gave them"""
    from . import cond as _cond

    def prep(e, depth=0):
        e = facts.inline_locals(f, e)

        def go(n, d):
            if not isinstance(n, dict):
                return n
            if n["k"] in ("CallExpr", "CXXMemberCallExpr") and n.get("callee") and not n.get("ext") and d < 3:
                pe = predicate_expr(db, n["callee"])
                if pe is not None and pe[0] is not f:
                    try:
                        return go(_cond.graft(pe[0], f, pe[1], n), d + 1)
                    except KeyError:
                        return n
            if n.get("c"):
                m = dict(n)
                m["c"] = [go(c, d) for c in n["c"]]
                return m
            return n
        return go(e, depth)
    return prep
