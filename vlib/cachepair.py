"""Pairing of a container of options/tags with its cached serialised-size counter.

For a class K with container field C and counter field S:
  * every mutation of C is covered on all CFG paths by an adjustment of S
    (directly, or through a helper of K that only adjusts S), and vice versa;
  * the adjustment has the matching sign and names the *same element* that is
    added / removed, and for removals it is evaluated before the erase;
  * the per-element size form used when adding, when removing and (checked by
    the caller) when serialising is the same linear form.
"""
from . import facts, cfg
from .facts import strip

ADDERS = {"push_back", "emplace_back", "insert", "emplace"}
REMOVERS = {"erase", "pop_back"}
RESETTERS = {"clear"}
OTHER_MUT = {"resize", "assign", "swap"}
READERS = {"begin", "end", "size", "empty", "cbegin", "cend", "front", "back", "rbegin", "rend"}


def is_field(n, rec_names, field):
    n = strip(n)
    return n["k"] == "MemberExpr" and n.get("isfield") and n.get("member") == field and n.get("mrec") in rec_names \
        and n.get("c") and strip(n["c"][0])["k"] == "CXXThisExpr"


def through_move(n):
    n = strip(n)
    while n["k"] == "CallExpr" and n.get("ext") and n.get("cname") in ("move", "forward") and len(n["c"]) == 2:
        n = strip(n["c"][1])
    while n["k"] == "CXXConstructExpr" and len(n.get("c", [])) == 1:
        n = through_move(n["c"][0])
    return n


class Form(object):
    """linear size form: multiset of symbolic atoms + integer constant"""

    def __init__(self):
        self.atoms = {}
        self.const = 0
        self.ok = True
        self.why = ""

    def add_atom(self, a, sign):
        self.atoms[a] = self.atoms.get(a, 0) + sign
        if self.atoms[a] == 0:
            del self.atoms[a]

    def key(self):
        return (tuple(sorted(self.atoms.items())), self.const)

    def __repr__(self):
        parts = ["%s%s" % ("" if c == 1 else "%d*" % c, a) for a, c in sorted(self.atoms.items())]
        if self.const or not parts:
            parts.append(str(self.const))
        return " + ".join(parts)


def linear_form(f, e, elem_of, subst=None, depth=0):
    """Normalise e to Form over atoms METHOD(elem) / free expressions.
    elem_of(node) -> True when node designates the element being added/removed."""
    F = Form()

    def go(e, sign):
        e = strip(e)
        v = facts.cval(e)
        if v is not None:
            F.const += sign * v
            return
        k = e["k"]
        if k == "BinaryOperator" and e["op"] in ("+", "-"):
            go(e["c"][0], sign)
            go(e["c"][1], sign if e["op"] == "+" else -sign)
            return
        if k == "BinaryOperator" and e["op"] in ("<<", "*"):
            a, b = facts.cval(e["c"][0]), facts.cval(e["c"][1])
            if a is not None and b is not None:
                F.const += sign * (a << b if e["op"] == "<<" else a * b)
                return
        if k in ("CStyleCastExpr", "CXXStaticCastExpr", "CXXFunctionalCastExpr", "ParenExpr"):
            go(e["c"][0], sign)
            return
        if k == "CXXMemberCallExpr" and not cfg.args(e):
            r = cfg.receiver(e)
            if r is not None and strip(r)["k"] == "DeclRefExpr" and strip(r).get("var") in psub:
                r = psub[strip(r)["var"]]       # parameter of an inlined size helper -> the caller's argument
            if r is not None and elem_of(r):
                F.add_atom("%s(elem)" % e.get("cname"), sign)
                return
        if k == "DeclRefExpr" and e.get("var") in psub:
            go(psub[e["var"]], sign)
            return
        if k == "DeclRefExpr" and subst and e.get("var") in subst and depth < 4:
            go(subst[e["var"]], sign)
            return
        if k == "CallExpr" and e.get("callee") and not e.get("ext") and len(stack) < 3:
            # a small pure helper `T size_of(const option& o) { return EXPR; }` is its return expression
            db = facts.db_of(f)
            h = db.fn(e["callee"]) if db is not None else None
            if h is not None and h.get("body") and h["id"] not in stack:
                hn = list(facts.fn_nodes(h))
                rets = [x for x in hn if x["k"] == "ReturnStmt" and x.get("c")]
                pure = len(hn) < 40 and len(rets) == 1 and not any(
                    x["k"] in ("CompoundAssignOperator", "IfStmt", "ForStmt", "WhileStmt", "DoStmt", "SwitchStmt", "CXXThrowExpr", "DeclStmt") or
                    (x["k"] == "BinaryOperator" and x.get("op") == "=") or (x["k"] == "UnaryOperator" and x.get("op") in ("++", "--"))
                    for x in hn)
                if pure and len(h.get("params", ())) == len(cfg.args(e)):
                    saved = dict(psub)
                    for p_, a_ in zip(h["params"], cfg.args(e)):
                        a0 = strip(a_)
                        psub[p_["var"]] = psub.get(a0.get("var"), a_) if a0["k"] == "DeclRefExpr" else a_
                    stack.append(h["id"])
                    go(rets[0]["c"][0], sign)
                    stack.pop()
                    psub.clear()
                    psub.update(saved)
                    return
        F.add_atom("expr:" + facts.expr_str(e), sign)
    psub, stack = {}, []
    go(e, 1)
    return F


class ClassPair(object):
    def __init__(self, db, rec, container, counter):
        self.db, self.rec, self.container, self.counter = db, rec, container, counter
        self.recs = set([rec])
        self.funcs = [f for f in db.functions.values() if f.get("rec") == rec and f.get("body") and not f.get("implicit")]
        self.adjusters = {}   # fid -> (sign, param index, Form)   pure adjusters
        self.balanced = set()  # fids with both mutation and adjustment, verified
        self.results = []     # (verdict, key, site, text)
        self.forms = []       # (kind, Form, site)

    # -- site discovery ---------------------------------------------------------------
    def mutations(self, f):
        out = []
        for n in facts.fn_nodes(f):
            if n["k"] == "CXXMemberCallExpr":
                r = cfg.receiver(n)
                if r is not None and is_field(r, self.recs, self.container):
                    c = n.get("cname")
                    if c in READERS:
                        continue
                    out.append((n, c))
            elif n["k"] == "CXXOperatorCallExpr" and n.get("op") == "=" and len(n["c"]) >= 2 and \
                    is_field(n["c"][1], self.recs, self.container):
                out.append((n, "operator="))
        return out

    def adjustments(self, f):
        out = []
        for n in facts.fn_nodes(f):
            if n["k"] in ("CompoundAssignOperator", "BinaryOperator") and n.get("op") in ("+=", "-=", "=") and \
                    is_field(n["c"][0], self.recs, self.counter):
                out.append((n, n["op"]))
            elif n["k"] in ("UnaryOperator",) and n.get("op") in ("++", "--") and is_field(n["c"][0], self.recs, self.counter):
                out.append((n, n["op"]))
        return out

    def local_consts(self, f):
        sub = {}
        for n in facts.fn_nodes(f):
            if n["k"] == "VarDecl" and n.get("c"):
                sub[n["var"]] = n["c"][0]
        return sub

    # -- analysis -------------------------------------------------------------------------
    def analyse(self):
        # pass 1: pure adjusters (adjust S from a parameter, no container mutation)
        for f in self.funcs:
            muts, adjs = self.mutations(f), self.adjustments(f)
            if adjs and not muts and f.get("kind") == "method" and len(adjs) == 1 and len(f["params"]) >= 1:
                n, op = adjs[0]
                if op in ("+=", "-="):
                    pv = f["params"][0]["var"]
                    form = linear_form(f, n["c"][1], lambda r: strip(r)["k"] == "DeclRefExpr" and strip(r).get("var") == pv,
                                       self.local_consts(f))
                    if any(a.endswith("(elem)") for a in form.atoms):
                        self.adjusters[f["id"]] = (op, 0, form, f, n)
        # pass 2: every function with mutations / adjustments
        for f in sorted(self.funcs, key=lambda f: f["id"]):
            self.check_fn(f)
        return self

    def short(self, f):
        return f["id"].split("(")[0].split("::")[-1] + ("&&" if "&&" in f["id"] else "")

    def check_fn(self, f):
        muts, adjs = self.mutations(f), self.adjustments(f)
        adj_calls = []
        for n in facts.fn_nodes(f):
            if n["k"] == "CXXMemberCallExpr" and n.get("callee") in self.adjusters:
                r = cfg.receiver(n)
                if r is not None and strip(r)["k"] == "CXXThisExpr":
                    adj_calls.append(n)
        if not muts and not adjs and not adj_calls:
            return
        if f["id"] in self.adjusters:
            op, _, form, _, n = self.adjusters[f["id"]]
            self.results.append(("ok", "%s:pure-adjuster" % self.short(f), facts.loc(f, n),
                                 "helper adjusts the counter by %s of its parameter; obligation moves to its callers" % form))
            self.forms.append(("add" if op == "+=" else "remove", form, facts.loc(f, n), self.short(f)))
            return
        g = cfg.FnCFG(f)
        sub = self.local_consts(f)
        apos = [(g.pos(n), n, op, None) for n, op in adjs] + \
               [(g.pos(n), n, self.adjusters[n["callee"]][0], n) for n in adj_calls]
        used = set()
        for m, cname in muts:
            key = "%s:%s" % (self.short(f), cname)
            site = facts.loc(f, m)
            mp = g.pos(m)
            if f.get("kind") == "ctor" and cname == "operator=":
                continue
            if cname in OTHER_MUT or cname == "operator=":
                self.results.append(("undecided", key, site, "container mutated with %s: effect on the cached size not modelled" % cname))
                continue
            if cname in RESETTERS:
                zero = [a for a in apos if a[2] == "=" and facts.cval(a[1]["c"][1]) == 0]
                w = g.covered(mp, [a[0] for a in zero if a[0]])
                if not zero or w is not None:
                    self.results.append(("violation", key, site, "container is cleared but the cached size is not reset to 0 on every path"))
                else:
                    for a in zero:
                        used.add(a[1]["id"])
                    self.results.append(("ok", key, site, "cleared together with `%s = 0`" % self.counter))
                continue
            want = "+=" if cname in ADDERS else "-="
            # the element
            margs = cfg.args(m)
            elem = through_move(margs[-1]) if (margs and cname in ADDERS) else (strip(margs[0]) if margs else None)
            cands = [a for a in apos if a[0] is not None]
            cover = g.covered(mp, [a[0] for a in cands])
            if not cands or cover is not None:
                self.results.append(("violation", key, site,
                                     "container `%s` is changed by %s() but the cached size `%s` is not adjusted on every path "
                                     "through this statement" % (self.container, cname, self.counter)))
                continue
            # choose the adjustments that lie on paths through m
            rel = [a for a in cands if g.reachable(a[0], mp) or g.reachable(mp, a[0]) or a[0][0] == mp[0]]
            good = False
            msgs = []
            for (p, n, op, call) in rel:
                if op != want:
                    msgs.append("adjustment at %s has sign `%s`, %s() needs `%s`" % (facts.loc(f, n), op, cname, want))
                    continue
                # operand agreement
                if call is not None:
                    a0 = through_move(cfg.args(call)[0])
                    same = self.same_elem(f, a0, elem, cname)
                    form = self.adjusters[call["callee"]][2]
                else:
                    form = linear_form(f, n["c"][1], lambda r: self.same_elem(f, strip(r), elem, cname), sub)
                    same = any(a.endswith("(elem)") for a in form.atoms)
                    if not same and elem is not None and elem["k"] in ("CXXTemporaryObjectExpr", "CXXConstructExpr", "CXXFunctionalCastExpr"):
                        # element built in place from (ptr, ptr+L) / (code, L, ptr): data size is L
                        L = self.temp_len(f, elem)
                        if L is not None:
                            form2 = Form()
                            form2.const = form.const
                            hit = False
                            for a, c in form.atoms.items():
                                if a == "expr:" + L:
                                    form2.add_atom("data_size(elem)", c)
                                    hit = True
                                else:
                                    form2.add_atom(a, c)
                            if hit:
                                form, same = form2, True
                if not same:
                    msgs.append("adjustment at %s (%s) does not measure the element that %s() %s" %
                                (facts.loc(f, n), form if call is None else "helper call", cname,
                                 "adds" if want == "+=" else "removes"))
                    continue
                if want == "-=" and not (p[0] == mp[0] and p[1] < mp[1]) and not g.before_on_all_paths(p, mp):
                    msgs.append("the size of the erased element is read at %s after/independently of the erase: the iterator "
                                "no longer designates it" % facts.loc(f, n))
                    continue
                if want == "-=" and (p[0] == mp[0] and p[1] > mp[1]):
                    msgs.append("the size of the erased element is read after the erase")
                    continue
                good = True
                used.add(n["id"])
                self.forms.append(("add" if want == "+=" else "remove", form, facts.loc(f, n), self.short(f)))
                if call is not None:
                    pass
            if good:
                self.results.append(("ok", key, site, "paired with the `%s` adjustment of `%s` for the same element on all paths"
                                     % (want, self.counter)))
            else:
                self.results.append(("violation", key, site, "; ".join(msgs) or "no usable adjustment"))
        # adjustments that pair with no mutation
        for (p, n, op, call) in apos:
            if n["id"] in used:
                continue
            if f.get("kind") == "ctor" and op == "=":
                continue
            key = "%s:adjust-without-mutation" % self.short(f)
            if op == "=" and facts.cval(n["c"][1]) == 0 and not muts:
                # reset without clear?
                self.results.append(("violation", key, facts.loc(f, n), "cached size reset to 0 but the container is not cleared"))
                continue
            if not muts:
                self.results.append(("violation", key, facts.loc(f, n),
                                     "cached size `%s` is adjusted but the container `%s` is not changed in this function"
                                     % (self.counter, self.container)))

    def same_elem(self, f, a, elem, cname):
        if elem is None or a is None:
            return False
        a, e = strip(a), strip(elem)
        if a["k"] == "DeclRefExpr" and e["k"] == "DeclRefExpr":
            return a.get("var") == e.get("var")
        # iter->  / *iter for removals
        if cname in REMOVERS:
            x = a
            if x["k"] == "CXXOperatorCallExpr" and x.get("op") in ("->", "*") and len(x["c"]) >= 2:
                x = strip(x["c"][1])
            if x["k"] == "UnaryOperator" and x.get("op") == "*":
                x = strip(x["c"][0])
            y = e
            while y["k"] == "CXXConstructExpr" and len(y.get("c", [])) == 1:
                y = strip(y["c"][0])
            if x["k"] == "DeclRefExpr" and y["k"] == "DeclRefExpr":
                return x.get("var") == y.get("var")
        return facts.expr_str(a) == facts.expr_str(e)

    def temp_len(self, f, elem):
        """data length expression of an option built in place"""
        args = [strip(x) for x in elem.get("c", [])]
        if elem["k"] == "CXXFunctionalCastExpr" and args:
            return self.temp_len(f, args[0]) if args[0]["k"] in ("CXXConstructExpr", "CXXTemporaryObjectExpr") else None
        if len(args) == 3:
            a1, a2 = args[1], args[2]
            # (code, first, first + L)
            if a2["k"] == "BinaryOperator" and a2["op"] == "+" and facts.expr_str(a2["c"][0]) == facts.expr_str(a1):
                return facts.expr_str(a2["c"][1])
            # (code, length, ptr)
            t = facts.ty(f, a1)
            if t and t.get("k") == "int":
                return facts.expr_str(a1)
        return None

    def form_agreement(self):
        """all add / remove forms of the class must be one linear form"""
        keys = {}
        for kind, form, site, fn in self.forms:
            keys.setdefault(form.key(), []).append((kind, site, fn, form))
        return keys
