"""Typestate analysis for a container whose total element size is cached in a
counter ("accounted container").  Used by C06.R1 (DataTracker).

Abstract states
  element designated by an iterator variable v  : C counted in the counter,
      U uncounted (its size has been subtracted / not yet added), E empty
      (moved-from: size 0, counted == uncounted), G gone (erased)
  local / parameter vector P                     : F fresh (holds bytes that are
      not in the counter), A added to the counter, M moved-out

The analysis is a forward may-analysis over the clang CFG; a transition that is
illegal in *any* reaching state is reported.  Events are recognised on resolved
AST shapes only (member declarations, callee ids, parameter types).
"""
from . import facts, cfg
from .facts import strip

MUTATORS = {"erase", "clear", "resize", "push_back", "pop_back", "insert", "assign", "swap", "emplace_back",
            "emplace", "shrink_to_fit", "reserve_and_fill"}


class Spec(object):
    def __init__(self, rec, container, counter):
        self.rec = rec
        self.container = container
        self.counter = counter


class Analysis(object):
    def __init__(self, db, spec, f, summaries):
        self.db, self.spec, self.f = db, spec, f
        self.g = cfg.FnCFG(f)
        self.summaries = summaries
        self.viol = []     # (node, text)
        self.undec = []    # (node, text)
        self.events = 0
        self.alias = {}    # reference var -> ('elem', itervar)
        self._find_aliases()

    # -- object resolution ---------------------------------------------------------
    def is_iter_type(self, t):
        return bool(t) and t.get("k") == "rec" and "_Rb_tree_iterator" in t.get("name", "") or \
            bool(t) and t.get("k") == "rec" and "iterator" in t.get("name", "") and "pair<const" in t.get("name", "")

    def is_vec_type(self, t):
        while t and t.get("k") == "ref":
            t = t.get("to")
        return bool(t) and t.get("k") == "rec" and t.get("name", "").startswith("std::vector<unsigned char")

    def obj(self, n):
        n = strip(n)
        k = n["k"]
        if k == "MemberExpr" and n.get("isfield"):
            base = strip(n["c"][0]) if n.get("c") else None
            if base is not None and base["k"] == "CXXThisExpr" and n.get("mrec") == self.spec.rec:
                if n["member"] == self.spec.container:
                    return ("container",)
                if n["member"] == self.spec.counter:
                    return ("counter",)
                return ("field", n["member"])
            if n["member"] in ("second", "first") and base is not None:
                it = self.iter_of(base)
                if it is not None:
                    return ("elem" if n["member"] == "second" else "key", it)
        if k == "DeclRefExpr" and "var" in n:
            v = n["var"]
            if v in self.alias:
                return self.alias[v]
            t = facts.ty(self.f, n)
            if self.is_vec_type(t):
                return ("local", v)
            if self.is_iter_type(t):
                return ("iter", v)
        if k == "CallExpr" and n.get("cname") in ("move", "forward") and n.get("ext"):
            return self.obj(n["c"][1])
        if k == "CXXConstructExpr" and len(n.get("c", [])) == 1:
            # copy / iterator -> const_iterator conversion
            return self.obj(n["c"][0])
        return None

    def iter_of(self, base):
        """iterator variable for `it->` / `(*it).`"""
        base = strip(base)
        if base["k"] == "CXXOperatorCallExpr" and base.get("op") in ("->", "*"):
            x = strip(base["c"][1])
            if x["k"] == "DeclRefExpr" and self.is_iter_type(facts.ty(self.f, x)):
                return x["var"]
        if base["k"] == "UnaryOperator" and base.get("op") == "*":
            return self.iter_of(base["c"][0])
        return None

    def _find_aliases(self):
        self.snap = {}     # integer local -> object whose size it holds (`const size_t n = it->second.size();`)
        for n in facts.fn_nodes(self.f):
            if n["k"] == "VarDecl" and n.get("c"):
                t = facts.tyi(self.f, n.get("t"))
                if t and t.get("k") == "ref":
                    o = self.obj(n["c"][0])
                    if o and o[0] == "elem":
                        self.alias[n["var"]] = o
        sa = facts.single_assign(self.f)
        for n in facts.fn_nodes(self.f):
            if n["k"] == "VarDecl" and n.get("c") and n.get("var") in sa and (facts.tyi(self.f, n.get("t")) or {}).get("k") == "int":
                tm = self.size_terms(n["c"][0])
                if tm is not None and len(tm) == 1 and tm[0][0] == 1:
                    self.snap[n["var"]] = tm[0][1]

    # -- size terms ------------------------------------------------------------------
    def size_terms(self, e, sign=1):
        """RHS of a counter adjustment as [(sign, object)] or None when unrecognised"""
        e = strip(e)
        if e["k"] == "BinaryOperator" and e["op"] in ("+", "-"):
            a = self.size_terms(e["c"][0], sign)
            b = self.size_terms(e["c"][1], sign if e["op"] == "+" else -sign)
            if a is None or b is None:
                return None
            return a + b
        if e["k"] in ("CStyleCastExpr", "CXXStaticCastExpr", "CXXFunctionalCastExpr"):
            return self.size_terms(e["c"][0], sign)
        if e["k"] == "CXXMemberCallExpr" and e.get("cname") == "size":
            o = self.obj(cfg.receiver(e))
            if o and o[0] in ("elem", "local"):
                return [(sign, o)]
        if e["k"] == "DeclRefExpr" and e.get("var") in getattr(self, "snap", {}):
            return [(sign, ("snapof", e["var"]))]
        return None

    # -- consumption of std::move(X) ----------------------------------------------------
    def consumption(self, mv):
        """'always' | 'maybe' | 'never' for the CallExpr std::move(X) node mv"""
        cur = mv
        parent = self.g.parent
        while True:
            p = parent.get(cur["id"])
            if p is None:
                return "never"
            k = p["k"]
            if k in facts.TRANSPARENT:
                cur = p
                continue
            if k in ("CXXConstructExpr", "CXXTemporaryObjectExpr"):
                return "always"   # move-constructs a new object (by-value parameter / local)
            if k == "CXXOperatorCallExpr" and p.get("op") == "=":
                return "always"   # move assignment
            if k == "CallExpr" and p.get("ext") and p.get("cname") in ("make_pair", "forward", "move", "make_tuple"):
                cur = p
                continue
            if k in ("CallExpr", "CXXMemberCallExpr"):
                callee = p.get("callee")
                if p.get("ext"):
                    # standard container insert/emplace/push_back with an rvalue
                    return "always"
                s = self.summaries.get(callee)
                ai = [i for i, a in enumerate(cfg.args(p)) if self._contains(a, mv)]
                if s is not None and ai:
                    return s.get("consumes", {}).get(ai[0], "maybe")
                return "maybe"
            if k == "VarDecl":
                t = facts.tyi(self.f, p.get("t"))
                return "never" if t and t.get("k") == "ref" else "always"
            return "maybe"

    def _contains(self, root, node):
        for x in facts.walk(root):
            if x is node:
                return True
        return False

    # -- the dataflow ---------------------------------------------------------------------
    def run(self):
        f = self.f
        init = {}
        for p in f["params"]:
            t = facts.tyi(f, p["t"])
            if self.is_iter_type(t):
                init[("elem", p["var"])] = frozenset("C")
            elif self.is_vec_type(t) and not ((t.get("k") == "ref") and (t.get("to") or {}).get("const")):
                init[("local", p["var"])] = frozenset("F")
        self.reported = set()

        def join(a, b):
            if a == b:
                return a
            out = dict(a)
            for k, v in b.items():
                out[k] = out.get(k, frozenset()) | v
            return out

        inn = cfg.forward_dataflow(self.g, init, self.transfer, join)
        # exits
        self.exit_states = []
        for b, kind in self.g.exits():
            if kind != "return" or b not in inn:
                continue
            st = inn[b]
            blk = self.g.blocks[b]
            for i, e in enumerate(blk["e"]):
                node = self.g.idx.get(e)
                if node is not None:
                    st = self.transfer(node, st, (b, i), quiet=True)
            self.exit_states.append(st)
            last = self.g.idx.get(blk["e"][-1]) if blk["e"] else f["body"]
            for k, v in st.items():
                if k[0] == "owed":
                    self.report(last or f["body"], "erase-counted:%s" % k[1].split("#")[0],
                                "an element was erased while its size (saved in `%s`) was still included in the counter, and the function "
                                "can return without subtracting it" % k[1].split("#")[0])
                if k[0] == "elem" and "U" in v:
                    self.report(last or f["body"], "exit:%s" % k[1].split("#")[0],
                                "function can return while the element designated by `%s` is still in the container "
                                "with its size subtracted from the counter" % k[1].split("#")[0])
                if k[0] == "local" and "A" in v:
                    self.report(last or f["body"], "exit:%s" % k[1].split("#")[0],
                                "function can return after adding `%s.size()` to the counter without storing it"
                                % k[1].split("#")[0])
        return self

    def report(self, node, tag, text):
        key = (node["id"], tag)
        if key in self.reported:
            return
        self.reported.add(key)
        self.viol.append((node, tag, text))

    def transfer(self, n, st, pos, quiet=False):
        k = n["k"]
        rep = (lambda node, tag, text: None) if quiet else self.report
        name = lambda o: o[1].split("#")[0]

        def get(o, default):
            return st.get(o, frozenset(default))

        def put(o, states):
            s2 = dict(st)
            s2[o] = frozenset(states)
            return s2

        # declarations (the CFG element is the DeclStmt; its VarDecl children carry the facts)
        if k == "DeclStmt":
            for ch in n.get("c", []):
                if ch.get("k") == "VarDecl":
                    st = self.transfer(ch, st, pos, quiet)
            return st
        if k == "VarDecl":
            t = facts.tyi(self.f, n.get("t"))
            if self.is_iter_type(t):
                return put(("elem", n["var"]), "C")
            if self.is_vec_type(t) and t.get("k") != "ref":
                # initialised from another tracked vector (copy or move): inherit its accounting state
                src = None
                if n.get("c"):
                    for x in facts.walk(n["c"][0]):
                        if x["k"] == "DeclRefExpr":
                            o = self.obj(x)
                            if o and o[0] == "local":
                                src = o
                                moved = any(y["k"] == "CallExpr" and y.get("cname") == "move" and y.get("ext")
                                            for y in facts.walk(n["c"][0]))
                                break
                if src is not None:
                    s2 = dict(st)
                    s2[("local", n["var"])] = s2.get(src, frozenset("F"))
                    if moved:
                        s2[src] = frozenset("M")
                    return s2
                return put(("local", n["var"]), "F")
            return st
        # counter adjustments
        if k in ("CompoundAssignOperator", "BinaryOperator") and n.get("op") in ("+=", "-=", "=") and \
                self.obj(n["c"][0]) == ("counter",):
            if not quiet:
                self.events += 1
            op = n["op"]
            if op == "=":
                if facts.cval(n["c"][1]) == 0:
                    return put(("cleared",), "Z")
                if not quiet:
                    self.undec.append((n, "counter assigned from an expression the rule does not model"))
                return st
            terms = self.size_terms(n["c"][1])
            if terms is None:
                if not quiet:
                    self.undec.append((n, "counter adjusted by an expression that is not a sum of .size() terms"))
                return st
            s2 = dict(st)
            for sg, o in terms:
                eff = sg if op == "+=" else -sg
                if o[0] == "snapof":
                    # a size saved in a local: settles the debt of an element erased meanwhile, else stands for the object
                    if eff < 0 and ("owed", o[1]) in s2:
                        s2.pop(("owed", o[1]))
                        continue
                    o = self.snap[o[1]]
                if o[0] == "elem":
                    cur = s2.get(o, frozenset("C"))
                    new = set()
                    for s in cur:
                        if eff < 0:
                            if s == "C":
                                new.add("U")
                            elif s == "E":
                                new.add("E")
                            elif s == "U":
                                rep(n, "double-sub:" + name(o), "the size of the element designated by `%s` is subtracted from the "
                                    "counter although it may already have been subtracted" % name(o))
                                new.add("U")
                            else:
                                rep(n, "after-erase:" + name(o), "size of an erased element read through `%s`" % name(o))
                        else:
                            if s in ("U", "E"):
                                new.add("C")
                            else:
                                rep(n, "double-add:" + name(o), "the size of the element designated by `%s` is added to the counter "
                                    "although it is already counted" % name(o))
                                new.add("C")
                    s2[o] = frozenset(new or cur)
                else:
                    cur = s2.get(o, frozenset("F"))
                    new = set()
                    for s in cur:
                        if eff > 0:
                            if s == "F":
                                new.add("A")
                            elif s == "A":
                                rep(n, "double-add:" + name(o), "`%s.size()` may be added to the counter twice" % name(o))
                                new.add("A")
                            else:
                                rep(n, "size-after-move:" + name(o), "`%s.size()` is read for the counter after `%s` may have been "
                                    "moved from (it is then empty)" % (name(o), name(o)))
                                new.add("M")
                        else:
                            rep(n, "sub-local:" + name(o), "the counter is decreased by the size of `%s`, which is not an element "
                                "of the container" % name(o))
                            new.add(s)
                    s2[o] = frozenset(new or cur)
            return s2
        # std::move(X)
        if k == "CallExpr" and n.get("ext") and n.get("cname") == "move" and len(n.get("c", [])) == 2:
            o = self.obj(n["c"][1])
            if o and o[0] == "elem":
                if not quiet:
                    self.events += 1
                c = self.consumption(n)
                cur = get(o, "C")
                new = set()
                for s in cur:
                    if s == "C":
                        if c != "never":
                            rep(n, "move-counted:" + name(o), "the element designated by `%s` is moved out of the container while "
                                "its size is still counted" % name(o))
                        new.add("C")
                    elif s == "U":
                        if c == "always":
                            new.add("E")
                        elif c == "maybe":
                            new.update("UE")
                        else:
                            new.add("U")
                    else:
                        new.add(s)
                return put(o, new)
            if o and o[0] == "local":
                # where does it go?  container insert / element assignment handle it themselves
                return put(("pending-move", o[1]), "1")
            return st
        # member calls
        if k == "CXXMemberCallExpr":
            recv = cfg.receiver(n)
            ro = self.obj(recv) if recv is not None else None
            cname = n.get("cname")
            if ro == ("container",):
                if not quiet:
                    self.events += 1
                a = cfg.args(n)
                if cname == "erase":
                    ao = self.obj(a[0]) if a else None
                    if ao and ao[0] == "iter":
                        o = ("elem", ao[1])
                        cur = get(o, "C")
                        owed = None
                        for s in cur:
                            if s == "C":
                                saved = [v for v, so in self.snap.items() if so == o and
                                         self.g.before_on_all_paths(self.g.pos([x for x in facts.fn_nodes(self.f) if x["k"] == "VarDecl" and x.get("var") == v][0]), pos)]
                                if saved:
                                    owed = saved[0]     # its size was saved first: the subtraction may follow the erase
                                else:
                                    rep(n, "erase-counted:" + name(o), "the element designated by `%s` is erased from the container while its "
                                        "size is still included in the counter" % name(o))
                            if s == "G":
                                rep(n, "double-erase:" + name(o), "`%s` may already have been erased" % name(o))
                        s2 = put(o, "G")
                        if owed is not None:
                            s2 = dict(s2)
                            s2[("owed", owed)] = frozenset("1")
                        return s2
                    if not quiet:
                        self.undec.append((n, "container.erase with an argument that is not an iterator variable"))
                    return st
                if cname in ("insert", "emplace", "emplace_hint"):
                    locs = [self.obj(x) for a_ in a for x in facts.walk(a_) if x["k"] == "DeclRefExpr"]
                    locs = [o for o in locs if o and o[0] == "local"]
                    s2 = dict(st)
                    if not locs:
                        if not quiet:
                            self.undec.append((n, "insertion of a value the rule cannot relate to a counted vector"))
                        return st
                    for o in locs:
                        cur = s2.get(o, frozenset("F"))
                        for s in cur:
                            if s == "F":
                                rep(n, "insert-uncounted:" + name(o), "`%s` is inserted into the container but its size has not been "
                                    "added to the counter on this path" % name(o))
                            if s == "M":
                                rep(n, "insert-moved:" + name(o), "`%s` is inserted after it may have been moved from" % name(o))
                        s2[o] = frozenset("M")
                        s2.pop(("pending-move", o[1]), None)
                    return s2
                if cname in ("clear", "swap"):
                    if "Z" not in get(("cleared",), ""):
                        # accept `counter = 0` after the clear as well: checked at exit via flag
                        return put(("need-zero",), "1")
                    return st
                if cname in ("find", "end", "begin", "size", "empty", "count", "lower_bound", "upper_bound", "cbegin", "cend"):
                    return st
                if not quiet:
                    self.undec.append((n, "container member call %s not modelled" % cname))
                return st
            if ro and ro[0] == "elem" and cname in MUTATORS:
                if not quiet:
                    self.events += 1
                cur = get(ro, "C")
                new = set()
                for s in cur:
                    if s == "C":
                        rep(n, "mutate-counted:" + name(ro), "`%s` changes the size of the element designated by `%s` while that size "
                            "is included in the counter (no matching adjustment precedes it)" % (cname, name(ro)))
                        new.add("C")
                    elif s == "G":
                        rep(n, "after-erase:" + name(ro), "element used after erase")
                    else:
                        new.add("U")
                return put(ro, new or cur)
            # calls to the class's own helpers
            callee = n.get("callee")
            s = self.summaries.get(callee)
            if s is not None:
                if not quiet:
                    self.events += 1
                s2 = dict(st)
                for i, a in enumerate(cfg.args(n)):
                    ao = self.obj(a)
                    role = s.get("params", {}).get(i)
                    if ao and ao[0] == "iter" and role == "balanced-erase":
                        o = ("elem", ao[1])
                        cur = s2.get(o, frozenset("C"))
                        for x in cur:
                            if x == "U":
                                rep(n, "double-sub:" + name(o), "%s() subtracts the size of the element designated by `%s` and erases it, "
                                    "but that size may already have been subtracted and the element not emptied (double "
                                    "subtraction)" % (n.get("cname"), name(o)))
                            if x == "G":
                                rep(n, "double-erase:" + name(o), "`%s` may already have been erased" % name(o))
                        s2[o] = frozenset("G")
                    elif ao and ao[0] == "iter" and role is None:
                        if not quiet:
                            self.undec.append((n, "iterator passed to %s whose effect on the element is not summarised" % n.get("cname")))
                    elif ao and ao[0] == "local" and role == "balanced-store":
                        cur = s2.get(ao, frozenset("F"))
                        for x in cur:
                            if x == "A":
                                rep(n, "store-added:" + name(ao), "`%s` was already added to the counter and is then handed to %s(), which "
                                    "counts it again" % (name(ao), n.get("cname")))
                        s2[ao] = frozenset("M")
                        s2.pop(("pending-move", ao[1]), None)
                return s2
            return st
        # operator calls: element assignment, iterator rebinding
        if k == "CXXOperatorCallExpr":
            op = n.get("op")
            if len(n.get("c", [])) >= 2:
                lhs = self.obj(n["c"][1])
                if op == "=" and lhs and lhs[0] == "elem" and len(n["c"]) >= 3:
                    if not quiet:
                        self.events += 1
                    src = self.obj(n["c"][2])
                    s2 = dict(st)
                    cur = s2.get(lhs, frozenset("C"))
                    for s in cur:
                        if s == "C":
                            rep(n, "assign-counted:" + name(lhs), "the element designated by `%s` is overwritten while its old size is still "
                                "included in the counter" % name(lhs))
                    if src and src[0] == "local":
                        cs = s2.get(src, frozenset("F"))
                        for s in cs:
                            if s == "F":
                                rep(n, "assign-uncounted:" + name(src), "`%s` replaces an element but its size has not been added to the "
                                    "counter on this path" % name(src))
                            if s == "M":
                                rep(n, "assign-moved:" + name(src), "`%s` is stored after it may have been moved from" % name(src))
                        s2[src] = frozenset("M")
                        s2.pop(("pending-move", src[1]), None)
                        s2[lhs] = frozenset("C")
                    else:
                        if not quiet:
                            self.undec.append((n, "element assigned from a value the rule cannot relate to a counted vector"))
                    return s2
                if lhs and lhs[0] == "iter" and op in ("=", "++", "--"):
                    o = ("elem", lhs[1])
                    cur = get(o, "C")
                    for s in cur:
                        if s == "U":
                            rep(n, "rebind-uncounted:" + name(o), "`%s` is advanced/reassigned while the element it designated is still in "
                                "the container with its size subtracted from the counter" % name(o))
                    return put(o, "C")
            return st
        return st


def summarise(db, spec, funcs):
    """Analyse the class's helper functions first and derive call summaries:
       params[i] = 'balanced-erase' (iterator parameter: the function subtracts
       the element's size and erases it) | 'balanced-store' (vector parameter:
       the function accounts for whatever it stores); consumes[i] = always|maybe."""
    summaries = {}
    results = {}
    # two rounds are enough (helpers do not call each other recursively today)
    for _ in range(2):
        for f in funcs:
            try:
                a = Analysis(db, spec, f, summaries).run()
            except facts.AnalysisBroken:
                continue
            results[f["id"]] = a
            if a.viol:
                continue
            s = {"params": {}, "consumes": {}}
            for i, p in enumerate(f["params"]):
                t = facts.tyi(f, p["t"])
                if a.is_iter_type(t):
                    if a.exit_states and all(st.get(("elem", p["var"])) == frozenset("G") for st in a.exit_states):
                        s["params"][i] = "balanced-erase"
                elif a.is_vec_type(t):
                    o = ("local", p["var"])
                    ends = [st.get(o, frozenset("F")) for st in a.exit_states]
                    if ends and all("A" not in e for e in ends):
                        s["params"][i] = "balanced-store"
                    if t.get("k") == "ref" and t.get("rv"):
                        if ends and all(e == frozenset("M") for e in ends):
                            s["consumes"][i] = "always"
                        elif ends and any("M" in e for e in ends):
                            s["consumes"][i] = "maybe"
                        else:
                            s["consumes"][i] = "never"
                    elif t.get("k") != "ref":
                        s["consumes"][i] = "always"
            summaries[f["id"]] = s
    return summaries, results
