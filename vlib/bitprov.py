"""E-BITS: bit-provenance interpretation of accessor code.

Every integer value is a vector of bits (LSB first); a bit is
   0 | 1                         a constant
   ("p", i)                      bit i of the setter's parameter
   ("m", b)                      the content bit b of the object before the call
   ("u", region, b)              an uninitialised bit of a temporary
   ("not", x) ("and", xs) ("or", xs) ("xor", xs)   exact Boolean structure
   ("x", why, ...)               precision lost (makes a verdict "undecided")
Memory is a set of regions, each a map bit address -> bit; the address of bit i
of byte k is 8*k+i, so on the little-endian host analysed here an N-byte scalar at
byte offset o has value bit i at 8*o+i, and a bit-field with layout offset f
(clang's record layout, in bits) has value bit i at f+i.

The interpreter walks the AST of the accessor (resolved callees are inlined from
their own AST: Endian::*, small_uint, HWAddress / IPv4Address / IPv6Address
members, ...; loops are unrolled because their conditions are concrete).  Masks,
shifts, byte swaps, casts and copies are exact in this domain, so composing a
setter with a getter yields, bit by bit, which parameter bit (or old content, or
constant) the getter returns.  Nothing is executed.
"""
from . import facts
from .facts import strip

HOST_LE = True


class Unsupported(Exception):
    pass


class Throw(Exception):
    pass


class _Ret(Exception):
    def __init__(self, v):
        self.v = v


class _Break(Exception):
    pass


class _Continue(Exception):
    pass


# --------------------------------------------------------------------------- bits
def b_not(a):
    if isinstance(a, int):
        return 1 - a
    if a[0] == "not":
        return a[1]
    return ("not", a)


def _flat(op, items):
    out = []
    for x in items:
        if isinstance(x, tuple) and x[0] == op:
            out.extend(x[1])
        else:
            out.append(x)
    return out


def b_and(a, b):
    if isinstance(a, int):
        return b if a else 0
    if isinstance(b, int):
        return a if b else 0
    if a == b:
        return a
    if a == b_not(b):
        return 0
    xs = sorted(set(_flat("and", [a, b])), key=repr)
    for x in xs:
        if b_not(x) in xs:
            return 0
    return ("and", tuple(xs))


def b_or(a, b):
    if isinstance(a, int):
        return 1 if a else b
    if isinstance(b, int):
        return 1 if b else a
    if a == b:
        return a
    if a == b_not(b):
        return 1
    xs = sorted(set(_flat("or", [a, b])), key=repr)
    for x in xs:
        if b_not(x) in xs:
            return 1
    return ("or", tuple(xs))


def b_xor(a, b):
    if isinstance(a, int):
        return b_not(b) if a else b
    if isinstance(b, int):
        return b_not(a) if b else a
    if a == b:
        return 0
    if a == b_not(b):
        return 1
    xs = sorted(_flat("xor", [a, b]), key=repr)
    # cancel pairs
    out = []
    for x in xs:
        if out and out[-1] == x:
            out.pop()
        else:
            out.append(x)
    if not out:
        return 0
    if len(out) == 1:
        return out[0]
    return ("xor", tuple(out))


def b_mux(c, a, b):
    if isinstance(c, int):
        return a if c else b
    if a == b:
        return a
    if a == 1 and b == 0:
        return c
    if a == 0 and b == 1:
        return b_not(c)
    return b_or(b_and(c, a), b_and(b_not(c), b))


def has_x(b):
    if isinstance(b, int):
        return False
    if b[0] == "x":
        return True
    if b[0] == "not":
        return has_x(b[1])
    if b[0] in ("and", "or", "xor"):
        return any(has_x(x) for x in b[1])
    return False


def support(b, kind, out):
    """collect indices of ("p", i) / ("m", i) leaves"""
    if isinstance(b, int):
        return
    if b[0] == kind:
        out.add(b[1])
    elif b[0] == "not":
        support(b[1], kind, out)
    elif b[0] in ("and", "or", "xor"):
        for x in b[1]:
            support(x, kind, out)
    elif b[0] == "x":
        for x in b[2:]:
            if isinstance(x, tuple):
                for y in x:
                    if isinstance(y, (tuple, int)):
                        support(y, kind, out)


def bit_str(b):
    if isinstance(b, int):
        return str(b)
    if b[0] == "p":
        return "v[%d]" % b[1]
    if b[0] == "m":
        return "old[byte %d bit %d]" % (b[1] // 8, b[1] % 8)
    if b[0] == "u":
        return "uninit"
    if b[0] == "not":
        return "!" + bit_str(b[1])
    if b[0] in ("and", "or", "xor"):
        return "(" + {"and": "&", "or": "|", "xor": "^"}[b[0]].join(bit_str(x) for x in b[1][:4]) + ")"
    return "?"


class BV(object):
    __slots__ = ("bits",)

    def __init__(self, bits):
        self.bits = list(bits)

    @staticmethod
    def const(v, w):
        return BV([(v >> i) & 1 for i in range(w)])

    def w(self):
        return len(self.bits)

    def is_const(self):
        return all(isinstance(b, int) for b in self.bits)

    def value(self):
        v = 0
        for i, b in enumerate(self.bits):
            if not isinstance(b, int):
                return None
            v |= b << i
        return v

    def svalue(self, signed):
        v = self.value()
        if v is None:
            return None
        if signed and self.bits and self.bits[-1] == 1:
            v -= 1 << len(self.bits)
        return v

    def maxv(self):
        return sum((1 if not isinstance(b, int) else b) << i for i, b in enumerate(self.bits))

    def minv(self):
        return sum((0 if not isinstance(b, int) else b) << i for i, b in enumerate(self.bits))

    def cast(self, w, signed_src):
        if w <= len(self.bits):
            return BV(self.bits[:w])
        ext = self.bits[-1] if (signed_src and self.bits) else 0
        return BV(self.bits + [ext] * (w - len(self.bits)))

    def __repr__(self):
        return "BV[%s]" % ",".join(bit_str(b) for b in self.bits)


class Loc(object):
    """an lvalue / pointer target: region, bit offset, type dict, optional bit-field width"""
    __slots__ = ("region", "off", "t", "bitw")

    def __init__(self, region, off, t, bitw=None):
        self.region, self.off, self.t, self.bitw = region, off, t, bitw

    def __repr__(self):
        return "Loc(%s+%d)" % (self.region, self.off)


class Ptr(object):
    __slots__ = ("loc",)

    def __init__(self, loc):
        self.loc = loc          # None = null pointer


def type_bits(t):
    if t is None:
        return None
    k = t.get("k")
    if k in ("int", "bool", "enum"):
        return t.get("w")
    if k == "rec":
        if "size" in t:
            return t["size"] * 8
        r = REC_SIZES.get(t.get("name"))
        return r * 8 if r else None
    if k == "arr":
        e = type_bits(t.get("to") if isinstance(t.get("to"), dict) else None)
        return e * t["n"] if e is not None else None
    if k == "ptr":
        return 64
    return None


REC_SIZES = {}


def is_signed(t):
    return bool(t and t.get("sg"))


# --------------------------------------------------------------------------- machine
class Machine(object):
    MAX_DEPTH = 14
    MAX_STEPS = 60000

    def __init__(self, db):
        self.db = db
        if not REC_SIZES:
            for rn, r in db.records.items():
                if r.get("size"):
                    REC_SIZES[rn] = r["size"]
        self.regions = {}
        self.defaults = {}
        self.nreg = 0
        self.assumed = []       # conditions assumed false because the other edge throws
        self.steps = 0
        self.trace_calls = set()
        self.script = None      # explore_paths: decisions for branches on symbolic conditions (None = not exploring)
        self.path = []
        self.forks = []
        self.hooks = None       # optional object with .construct(frame, n, loc) -> bool and .call(frame, n, ...) -> None | (value,)

    # -- memory
    def new_region(self, tag, default=None):
        self.nreg += 1
        name = "%s%d" % (tag, self.nreg)
        self.regions[name] = {}
        self.defaults[name] = default
        return name

    def rd(self, region, b):
        m = self.regions[region]
        if b in m:
            return m[b]
        d = self.defaults.get(region)
        if d is None:
            return ("u", region.rstrip("0123456789"), b)
        return (d, b)

    def load_bits(self, region, off, n):
        return [self.rd(region, off + i) for i in range(n)]

    def store_bits(self, region, off, bits):
        m = self.regions[region]
        for i, b in enumerate(bits):
            m[off + i] = b

    def loc_width(self, loc):
        if loc.bitw is not None:
            return loc.bitw
        w = type_bits(loc.t)
        if w is None:
            raise Unsupported("object of unknown size %s" % (loc.t or {}).get("s"))
        return w

    def load(self, loc):
        t = loc.t or {}
        if t.get("k") == "ptr":
            v = self.regions[loc.region].get(("ptr", loc.off))
            if v is None:
                raise Unsupported("read of a pointer that was not written here")
            return v
        w = self.loc_width(loc)
        bv = BV(self.load_bits(loc.region, loc.off, w))
        full = type_bits(t)
        if loc.bitw is not None and full and full > w:
            bv = bv.cast(full, is_signed(t))
        return bv

    def store(self, loc, v):
        t = loc.t or {}
        if isinstance(v, Ptr):
            self.regions[loc.region][("ptr", loc.off)] = v
            return
        if isinstance(v, Loc):      # record copy
            w = self.loc_width(loc)
            self.store_bits(loc.region, loc.off, self.load_bits(v.region, v.off, w))
            return
        w = self.loc_width(loc)
        self.store_bits(loc.region, loc.off, v.cast(w, False).bits)

    # -- driver
    def call(self, f, this=None, args=(), depth=0):
        fr = Frame(self, f, this, depth)
        return fr.run(args)


def explore_paths(run, max_paths=64):
    """run(machine_setup) is called once per path: it must build a fresh Machine, call setup(machine) on it before
    executing, execute, and return the result.  Every `if` on a symbolic condition forks.  Returns
    [(path condition bit, result or 'throw')]; raises Unsupported beyond max_paths."""
    out = []
    todo = [[]]
    while todo:
        script = todo.pop()
        box = {}

        def setup(m, script=script):
            m.script = list(script)
            m.path = []
            m.forks = []
            box["m"] = m
        try:
            res = run(setup)
        except Throw:
            res = "throw"
        m = box.get("m")
        if m is None:
            raise Unsupported("explore_paths: run() did not call setup")
        pc = 1
        for cv, d in m.path:
            pc = b_and(pc, cv if d else b_not(cv))
        out.append((pc, res))
        for i_ in m.forks:
            todo.append([d for _, d in m.path[:i_]] + [False])
        if len(out) + len(todo) > max_paths:
            raise Unsupported("more than %d paths" % max_paths)
    return out


class Frame(object):
    def __init__(self, m, f, this, depth):
        self.m, self.f, self.this, self.depth = m, f, this, depth
        self.vars = {}
        if depth > Machine.MAX_DEPTH:
            raise Unsupported("inlining too deep at %s" % f["id"])

    def ty(self, n):
        return facts.ty(self.f, n)

    def tyi(self, i):
        return facts.tyi(self.f, i)

    # -- entry
    def run(self, args):
        f, m = self.f, self.m
        ps = f["params"]
        if len(args) < len(ps):
            raise Unsupported("default arguments at %s" % f["id"])
        for p, a in zip(ps, args):
            t = self.tyi(p.get("t"))
            self.bind(p["var"], t, a)
        # constructor initialisers
        for ini in f.get("inits", []):
            if not ini.get("written") and ini.get("member") is None:
                continue
            if ini.get("member") is not None:
                rec = m.db.records.get(f["rec"])
                fld = field_of(m.db, f["rec"], ini["member"])
                if fld is None:
                    raise Unsupported("initialiser of unknown member %s" % ini["member"])
                ft = facts.tyi(rec_of_field(m.db, f["rec"], ini["member"]), fld["t"])
                loc = Loc(self.this.region, self.this.off + fld["off"], ft, fld.get("bitw"))
                e = ini.get("e")
                if e is None:
                    continue
                self.init_loc(loc, e)
            elif ini.get("base") is not None:
                e = ini.get("e")
                if e is not None and e.get("k") in ("CXXConstructExpr",):
                    self.construct(e, Loc(self.this.region, self.this.off, self.ty(e)))
        try:
            self.stmt(f["body"])
        except _Ret as r:
            return r.v
        return None

    def bind(self, var, t, a):
        m = self.m
        k = (t or {}).get("k")
        if k == "ref":
            if isinstance(a, Loc):
                self.vars[var] = ("ref", a)
                return
            if isinstance(a, BV):       # temporary bound to a const reference
                tt = t.get("to")
                r = m.new_region("T")
                loc = Loc(r, 0, tt)
                m.store(loc, a)
                self.vars[var] = ("ref", loc)
                return
            raise Unsupported("reference parameter bound to %r" % (a,))
        r = m.new_region("L")
        loc = Loc(r, 0, t)
        self.vars[var] = ("obj", loc)
        if a is not None:
            m.store(loc, a)

    def init_loc(self, loc, e):
        k = (loc.t or {}).get("k")
        if k == "rec":
            e0 = e
            while e0["k"] in ("ExprWithCleanups", "CXXBindTemporaryExpr", "MaterializeTemporaryExpr") or \
                    (e0["k"] == "ImplicitCastExpr" and e0.get("ck") in ("ConstructorConversion", "NoOp")) or \
                    (e0["k"] in ("CXXConstructExpr",) and e0.get("elidable") and e0.get("c")):
                e0 = e0["c"][0]
            if e0["k"] in ("CXXConstructExpr", "CXXTemporaryObjectExpr"):
                self.construct(e0, loc)
                return
            v = self.ev(e)
            if isinstance(v, Loc):
                self.m.store(loc, v)
                return
            raise Unsupported("record initialised from %s" % e0["k"])
        if k == "arr":
            e0 = strip(e)
            if e0["k"] in ("InitListExpr", "ImplicitValueInitExpr"):
                w = self.m.loc_width(loc)
                self.m.store_bits(loc.region, loc.off, [0] * w)
                if e0["k"] == "InitListExpr":
                    et = loc.t.get("to")
                    ew = type_bits(et)
                    for i, c in enumerate(e0.get("c", [])):
                        self.m.store(Loc(loc.region, loc.off + i * ew, et), self.rv(c))
                return
            raise Unsupported("array initialiser %s" % e0["k"])
        v = self.rv(e)
        self.m.store(loc, v)

    # -- statements
    def stmt(self, n):
        if n is None:
            return
        m = self.m
        m.steps += 1
        if m.steps > Machine.MAX_STEPS:
            raise Unsupported("step budget exhausted")
        k = n["k"]
        c = n.get("c", [])
        if k == "CompoundStmt":
            for x in c:
                self.stmt(x)
        elif k == "DeclStmt":
            for v in c:
                if v.get("k") != "VarDecl":
                    continue
                t = self.tyi(v.get("t")) if v.get("t") is not None else self.ty(v)
                if (t or {}).get("k") == "ref":
                    a = self.ev(v["c"][0])
                    if isinstance(a, BV):
                        self.bind(v["var"], t, a)
                    else:
                        self.vars[v["var"]] = ("ref", a)
                    continue
                r = m.new_region("L")
                loc = Loc(r, 0, t)
                self.vars[v["var"]] = ("obj", loc)
                if v.get("c"):
                    self.init_loc(loc, v["c"][0])
        elif k == "ReturnStmt":
            if not c:
                raise _Ret(None)
            rt = self.tyi(self.f.get("ret"))
            if (rt or {}).get("k") == "rec":
                r = m.new_region("R")
                loc = Loc(r, 0, rt)
                self.init_loc(loc, c[0])
                raise _Ret(loc)
            if (rt or {}).get("k") == "ref":
                raise _Ret(self.ev(c[0]))
            raise _Ret(self.rv(c[0]))
        elif k == "IfStmt":
            real = [x for x in c if x is not None]
            cond, then = real[0], real[1]
            els = real[2] if len(real) > 2 else None
            cv = self.truth(self.rv(cond))
            if cv is True:
                self.stmt(then)
            elif cv is False:
                self.stmt(els)
            else:
                t_thr = always_throws(then)
                e_thr = els is not None and always_throws(els)
                if t_thr and not e_thr:
                    m.assumed.append(("not", cv))
                    self.stmt(els)
                elif e_thr and not t_thr:
                    m.assumed.append(cv)
                    self.stmt(then)
                elif m.script is not None:
                    # path enumeration (explore_paths): take the scripted decision, or `true` first and remember the fork
                    i_ = len(m.path)
                    if i_ < len(m.script):
                        d_ = m.script[i_]
                    else:
                        d_ = True
                        m.forks.append(i_)
                    m.path.append((cv, d_))
                    self.stmt(then if d_ else els)
                else:
                    raise Unsupported("branch on a value that depends on the object or the argument (line %s)" % n.get("l"))
        elif k in ("ForStmt", "WhileStmt", "DoStmt"):
            self.loop(n)
        elif k == "BreakStmt":
            raise _Break()
        elif k == "ContinueStmt":
            raise _Continue()
        elif k == "NullStmt":
            pass
        elif k == "CXXTryStmt":
            self.stmt(c[0])
        elif k == "SwitchStmt":
            real = [x for x in c if x is not None]
            sel = self.rv(real[0])
            sv = sel.svalue(is_signed(self.ty(real[0]))) if isinstance(sel, BV) else None
            if sv is None:
                raise Unsupported("switch on a value that depends on the object or the argument (line %s)" % n.get("l"))
            items = []
            body = real[-1]
            for s_ in (body.get("c", []) if body["k"] == "CompoundStmt" else [body]):
                inner = s_
                while inner is not None and inner["k"] in ("CaseStmt", "DefaultStmt"):
                    if inner["k"] == "CaseStmt":
                        cvn = inner["c"][0]
                        while "v" not in cvn and cvn.get("c"):
                            cvn = cvn["c"][0]
                        items.append(("case", int(cvn.get("v")) if "v" in cvn else None))
                    else:
                        items.append(("default",))
                    inner = inner["c"][-1] if inner.get("c") else None
                if inner is not None:
                    items.append(("stmt", inner))
            start = None
            for i, it in enumerate(items):
                if it[0] == "case" and it[1] == sv:
                    start = i
                    break
            if start is None:
                for i, it in enumerate(items):
                    if it[0] == "default":
                        start = i
                        break
            if start is not None:
                try:
                    for it in items[start:]:
                        if it[0] == "stmt":
                            self.stmt(it[1])
                except _Break:
                    pass
        elif k in ("CaseStmt", "DefaultStmt", "GotoStmt", "LabelStmt"):
            raise Unsupported("%s in accessor" % k)
        else:
            self.ev(n)

    def loop(self, n):
        k = n["k"]
        c = n.get("c", [])
        if k == "ForStmt":
            init, cond, inc, body = (c + [None] * 5)[:5][0], None, None, None
            # layout: [init, condvar?, cond, inc, body]; tinsfacts drops null slots? be defensive
            parts = c
            if len(parts) == 5:
                init, _cv, cond, inc, body = parts
            elif len(parts) == 4:
                init, cond, inc, body = parts
            else:
                raise Unsupported("for statement with %d parts" % len(parts))
            self.stmt(init)
        elif k == "WhileStmt":
            parts = [x for x in c if x is not None]
            cond, body, inc = parts[0], parts[-1], None
        else:
            body, cond, inc = c[0], c[1], None
        it = 0
        first = True
        while True:
            it += 1
            if it > 4096:
                raise Unsupported("loop does not terminate concretely")
            if not (k == "DoStmt" and first):
                if cond is not None:
                    cv = self.truth(self.rv(cond))
                    if cv is False:
                        break
                    if cv is not True:
                        raise Unsupported("loop condition depends on the object or the argument (line %s)" % n.get("l"))
            first = False
            try:
                self.stmt(body)
            except _Break:
                break
            except _Continue:
                pass
            if inc is not None:
                self.ev(inc)

    def truth(self, v):
        if isinstance(v, Ptr):
            return v.loc is not None
        if isinstance(v, BV):
            if any(b == 1 for b in v.bits):
                return True
            if all(b == 0 for b in v.bits):
                return False
            if len(v.bits) == 1:
                return v.bits[0]
            r = 0
            for b in v.bits:
                r = b_or(r, b)
            return r
        raise Unsupported("condition of unsupported kind")

    # -- expressions
    def rv(self, n):
        v = self.ev(n)
        if isinstance(v, Loc):
            k = (v.t or {}).get("k")
            if k in ("int", "bool", "enum", "ptr"):
                return self.m.load(v)
        return v

    def lv(self, n):
        v = self.ev(n)
        if not isinstance(v, Loc):
            raise Unsupported("expected an lvalue at %s line %s" % (n["k"], n.get("l")))
        return v

    def const_of(self, n, t):
        w = type_bits(t) or 32
        v = n["v"]
        if isinstance(v, str):
            v = int(v)
        if isinstance(v, bool):
            v = int(v)
        return BV.const(v & ((1 << w) - 1), w)

    def ev(self, n):
        m = self.m
        k = n["k"]
        c = n.get("c", [])
        t = self.ty(n)
        if "v" in n and k != "VarDecl" and (t or {}).get("k") in ("int", "bool", "enum") and k not in ("CallExpr",):
            return self.const_of(n, t)
        if k in ("ParenExpr", "ExprWithCleanups", "CXXBindTemporaryExpr", "ConstantExpr", "SubstNonTypeTemplateParmExpr"):
            return self.ev(c[0])
        if k == "MaterializeTemporaryExpr":
            v = self.ev(c[0])
            if isinstance(v, BV):
                r = m.new_region("T")
                loc = Loc(r, 0, t)
                m.store(loc, v)
                return loc
            return v
        if k in ("IntegerLiteral", "CharacterLiteral", "CXXBoolLiteralExpr"):
            return self.const_of(n, t)
        if k == "CXXNullPtrLiteralExpr" or k == "GNUNullExpr":
            return Ptr(None)
        if k == "DeclRefExpr":
            var = n.get("var")
            if var in self.vars:
                return self.vars[var][1]
            if "v" in n:
                return self.const_of(n, t)
            raise Unsupported("reference to `%s`, which is neither a local nor a constant" % n.get("name"))
        if k == "CXXThisExpr":
            if self.this is None:
                raise Unsupported("this outside a method")
            return Ptr(self.this)
        if k == "MemberExpr":
            if not n.get("isfield"):
                raise Unsupported("member function reference")
            b = self.ev(c[0])
            if n.get("arrow"):
                if isinstance(b, Loc):
                    b = m.load(b)
                if not isinstance(b, Ptr) or b.loc is None:
                    raise Unsupported("-> on a non-pointer")
                b = b.loc
            if not isinstance(b, Loc):
                raise Unsupported("member of a non-object")
            fld = field_of(m.db, n["mrec"], n["member"])
            if fld is None:
                raise Unsupported("unknown field %s::%s" % (n["mrec"], n["member"]))
            return Loc(b.region, b.off + fld["off"], t, fld.get("bitw"))
        if k == "ArraySubscriptExpr":
            base = self.rv(c[0])
            idx = self.rv(c[1])
            if not isinstance(base, Ptr) or base.loc is None:
                raise Unsupported("subscript of a non-pointer")
            iv = idx.svalue(is_signed(self.ty(c[1]))) if isinstance(idx, BV) else None
            if iv is None:
                raise Unsupported("array index depends on the object or the argument")
            ew = type_bits(t)
            if ew is None:
                raise Unsupported("array element of unknown size")
            return Loc(base.loc.region, base.loc.off + iv * ew, t)
        if k in ("ImplicitCastExpr", "CStyleCastExpr", "CXXStaticCastExpr", "CXXFunctionalCastExpr", "CXXReinterpretCastExpr", "CXXConstCastExpr"):
            return self.cast(n, t)
        if k == "UnaryOperator":
            return self.unary(n, t)
        if k == "BinaryOperator":
            return self.binary(n, t)
        if k == "CompoundAssignOperator":
            loc = self.lv(c[0])
            a = m.load(loc)
            b = self.rv(c[1])
            op = n["op"][:-1]
            if isinstance(a, Ptr):
                r = self.ptr_arith(op, a, b, self.ty(c[1]))
                m.store(loc, r)
                return loc
            ct = self.tyi(n.get("ct")) if n.get("ct") is not None else None
            # computation type: usual arithmetic conversions; approximate with max(32, widths)
            w = max(32, a.w(), b.w() if isinstance(b, BV) else 0)
            a2 = a.cast(w, is_signed(loc.t))
            b2 = b.cast(w, is_signed(self.ty(c[1]))) if op not in ("<<", ">>") else b
            r = self.arith(op, a2, b2, w, False, n)
            m.store(loc, r)
            return loc
        if k == "ConditionalOperator":
            cv = self.truth(self.rv(c[0]))
            if cv is True:
                return self.rv(c[1])
            if cv is False:
                return self.rv(c[2])
            a, b = self.rv(c[1]), self.rv(c[2])
            if isinstance(a, BV) and isinstance(b, BV) and a.w() == b.w():
                return BV([b_mux(cv, x, y) for x, y in zip(a.bits, b.bits)])
            raise Unsupported("conditional on non-integers")
        if k in ("CallExpr", "CXXMemberCallExpr", "CXXOperatorCallExpr"):
            return self.callexpr(n, t)
        if k in ("CXXConstructExpr", "CXXTemporaryObjectExpr"):
            r = m.new_region("T")
            loc = Loc(r, 0, t)
            self.construct(n, loc)
            return loc
        if k == "CXXThrowExpr":
            raise Throw()
        if k == "CXXDefaultArgExpr":
            if c:
                return self.ev(c[0])
            raise Unsupported("default argument")
        if k == "UnaryExprOrTypeTraitExpr" and "v" in n:
            return self.const_of(n, t)
        if k == "ImplicitValueInitExpr" or k == "CXXScalarValueInitExpr":
            w = type_bits(t)
            if w is None:
                raise Unsupported("value-init of unknown size")
            if (t or {}).get("k") == "rec":
                r = m.new_region("T")
                m.store_bits(r, 0, [0] * w)
                return Loc(r, 0, t)
            return BV.const(0, w)
        raise Unsupported("expression kind %s (line %s)" % (k, n.get("l")))

    def cast(self, n, t):
        m = self.m
        c = n["c"]
        ck = n.get("ck")
        if ck == "LValueToRValue":
            v = self.ev(c[0])
            if isinstance(v, Loc):
                if (v.t or {}).get("k") == "rec" or (t or {}).get("k") == "rec":
                    return v
                return m.load(v)
            return v
        if ck in ("NoOp", "ConstructorConversion", "UserDefinedConversion", "DerivedToBase", "UncheckedDerivedToBase",
                  "BaseToDerived", "LValueBitCast"):
            v = self.ev(c[0])
            if ck in ("DerivedToBase", "UncheckedDerivedToBase", "BaseToDerived"):
                if isinstance(v, Loc):
                    return Loc(v.region, v.off, t if (t or {}).get("k") == "rec" else v.t, v.bitw)
                if isinstance(v, Ptr) and v.loc is not None:
                    tt = (t or {}).get("to") if isinstance((t or {}).get("to"), dict) else v.loc.t
                    return Ptr(Loc(v.loc.region, v.loc.off, tt))
            if ck == "LValueBitCast" and isinstance(v, Loc):
                return Loc(v.region, v.off, t)
            return v
        if ck == "ArrayToPointerDecay":
            v = self.ev(c[0])
            if not isinstance(v, Loc):
                raise Unsupported("decay of a non-array")
            et = (t or {}).get("to")
            return Ptr(Loc(v.region, v.off, et if isinstance(et, dict) else None))
        if ck == "FunctionToPointerDecay" or ck == "BuiltinFnToFnPtr":
            return None
        if ck == "NullToPointer":
            return Ptr(None)
        if ck == "BitCast":
            v = self.rv(c[0])
            if isinstance(v, Ptr):
                if v.loc is None:
                    return v
                et = (t or {}).get("to")
                return Ptr(Loc(v.loc.region, v.loc.off, et if isinstance(et, dict) else None))
            raise Unsupported("bit cast of a non-pointer")
        if ck == "PointerToBoolean":
            v = self.rv(c[0])
            if isinstance(v, Ptr):
                return BV.const(1 if v.loc is not None else 0, 1)
            raise Unsupported("pointer-to-bool of non-pointer")
        if ck == "IntegralToBoolean":
            v = self.rv(c[0])
            tr = self.truth(v)
            if tr is True:
                return BV.const(1, 1)
            if tr is False:
                return BV.const(0, 1)
            return BV([tr])
        if ck in ("IntegralCast", "BooleanToSignedIntegral"):
            v = self.rv(c[0])
            if not isinstance(v, BV):
                raise Unsupported("integral cast of a non-integer")
            w = type_bits(t)
            if w is None:
                raise Unsupported("cast to type of unknown width")
            return v.cast(w, is_signed(self.ty(c[0])))
        if ck == "ToVoid":
            self.ev(c[0])
            return None
        if ck in ("IntegralToPointer", "PointerToIntegral", "IntegralToFloating", "FloatingToIntegral", "FloatingCast"):
            raise Unsupported("cast %s" % ck)
        if ck is None and len(c) == 1:
            # explicit cast nodes carry ck too; fall back on types
            v = self.rv(c[0])
            if isinstance(v, BV) and (t or {}).get("k") in ("int", "bool", "enum"):
                return v.cast(type_bits(t), is_signed(self.ty(c[0])))
            return v
        raise Unsupported("cast kind %s" % ck)

    def unary(self, n, t):
        m = self.m
        op = n["op"]
        c = n["c"]
        if op == "*":
            v = self.rv(c[0])
            if not isinstance(v, Ptr) or v.loc is None:
                raise Unsupported("dereference of a non-pointer")
            return Loc(v.loc.region, v.loc.off, t)
        if op == "&":
            v = self.ev(c[0])
            if not isinstance(v, Loc):
                raise Unsupported("address of a non-lvalue")
            return Ptr(v)
        if op in ("++", "--"):
            loc = self.lv(c[0])
            old = m.load(loc)
            d = 1 if op == "++" else -1
            if isinstance(old, Ptr):
                new = self.ptr_arith("+", old, BV.const(d & 0xffffffff, 32), {"sg": True})
            else:
                if not old.is_const():
                    new = self.arith("+" if d > 0 else "-", old, BV.const(1, old.w()), old.w(), False, n)
                else:
                    new = BV.const((old.value() + d) & ((1 << old.w()) - 1), old.w())
            m.store(loc, new)
            return old if n.get("postfix") else loc
        v = self.rv(c[0])
        if not isinstance(v, BV):
            raise Unsupported("unary %s on non-integer" % op)
        w = type_bits(t) or v.w()
        if op == "~":
            return BV([b_not(b) for b in v.bits])
        if op == "!":
            tr = self.truth(v)
            if tr is True:
                return BV.const(0, 1)
            if tr is False:
                return BV.const(1, 1)
            return BV([b_not(tr)])
        if op == "-":
            if v.is_const():
                return BV.const((-v.value()) & ((1 << v.w()) - 1), v.w())
            return BV([("x", "neg", tuple(v.bits), i) for i in range(v.w())])
        if op == "+":
            return v
        raise Unsupported("unary %s" % op)

    def ptr_arith(self, op, p, i, it):
        if p.loc is None:
            raise Unsupported("arithmetic on null")
        iv = i.svalue(is_signed(it)) if isinstance(i, BV) else None
        if iv is None:
            raise Unsupported("pointer offset depends on the object or the argument")
        ew = type_bits(p.loc.t)
        if ew is None:
            raise Unsupported("pointer to element of unknown size")
        if op == "-":
            iv = -iv
        return Ptr(Loc(p.loc.region, p.loc.off + iv * ew, p.loc.t))

    def binary(self, n, t):
        m = self.m
        op = n["op"]
        c = n["c"]
        if op == "=":
            loc = self.lv(c[0])
            if (loc.t or {}).get("k") == "rec":
                v = self.ev(c[1])
                if isinstance(v, Loc):
                    m.store(loc, v)
                    return loc
                raise Unsupported("record assignment from non-object")
            v = self.rv(c[1])
            if v is None:
                raise Unsupported("assignment of void")
            m.store(loc, v)
            return loc
        if op == ",":
            self.ev(c[0])
            return self.ev(c[1])
        if op == "&&":
            a = self.truth(self.rv(c[0]))
            if a is False:
                return BV.const(0, 1)
            b = self.truth(self.rv(c[1]))
            if a is True:
                return BV([1 if b is True else 0 if b is False else b])
            if b is False:
                return BV.const(0, 1)
            return BV([a if b is True else b_and(a, b)])
        if op == "||":
            a = self.truth(self.rv(c[0]))
            if a is True:
                return BV.const(1, 1)
            b = self.truth(self.rv(c[1]))
            if a is False:
                return BV([1 if b is True else 0 if b is False else b])
            if b is True:
                return BV.const(1, 1)
            return BV([a if b is False else b_or(a, b)])
        a = self.rv(c[0])
        b = self.rv(c[1])
        if isinstance(a, Ptr) or isinstance(b, Ptr):
            if op in ("+", "-") and isinstance(a, Ptr) and isinstance(b, BV):
                return self.ptr_arith(op, a, b, self.ty(c[1]))
            if op == "+" and isinstance(b, Ptr) and isinstance(a, BV):
                return self.ptr_arith(op, b, a, self.ty(c[0]))
            if isinstance(a, Ptr) and isinstance(b, Ptr):
                if op in ("==", "!=", "<", ">", "<=", ">=", "-"):
                    if a.loc is None or b.loc is None:
                        if op in ("==", "!="):
                            eq = (a.loc is None) == (b.loc is None) and a.loc is None
                            return BV.const(int(eq if op == "==" else not eq), 1)
                        raise Unsupported("ordering null pointers")
                    if a.loc.region != b.loc.region:
                        if op in ("==", "!="):
                            return BV.const(int(op == "!="), 1)
                        raise Unsupported("ordering pointers into different objects")
                    x, y = a.loc.off, b.loc.off
                    if op == "-":
                        ew = type_bits(a.loc.t)
                        return BV.const(((x - y) // ew) & ((1 << 64) - 1), 64)
                    r = {"==": x == y, "!=": x != y, "<": x < y, ">": x > y, "<=": x <= y, ">=": x >= y}[op]
                    return BV.const(int(r), 1)
            raise Unsupported("pointer operation %s" % op)
        if not isinstance(a, BV) or not isinstance(b, BV):
            raise Unsupported("operator %s on non-integers (line %s)" % (op, n.get("l")))
        sg = is_signed(self.ty(c[0])) and is_signed(self.ty(c[1])) if op in ("<", ">", "<=", ">=") else is_signed(self.ty(c[0]))
        w = type_bits(t) or a.w()
        return self.arith(op, a, b, w, sg, n)

    def arith(self, op, a, b, w, sg, n):
        if op in ("&", "|", "^"):
            f = {"&": b_and, "|": b_or, "^": b_xor}[op]
            if a.w() != b.w():
                ww = max(a.w(), b.w())
                a, b = a.cast(ww, False), b.cast(ww, False)
            return BV([f(x, y) for x, y in zip(a.bits, b.bits)])
        if op in ("<<", ">>"):
            s = b.value()
            if s is None:
                raise Unsupported("shift by an amount that depends on the object or the argument (line %s)" % n.get("l"))
            if s >= a.w():
                raise Unsupported("shift by %d of a %d-bit value" % (s, a.w()))
            if op == "<<":
                return BV(([0] * s + a.bits)[:a.w()])
            ext = a.bits[-1] if sg else 0
            return BV(a.bits[s:] + [ext] * s)
        if op in ("==", "!=", "<", ">", "<=", ">="):
            ww = max(a.w(), b.w())
            a, b = a.cast(ww, sg), b.cast(ww, sg)
            av, bv = a.svalue(sg), b.svalue(sg)
            if av is not None and bv is not None:
                r = {"==": av == bv, "!=": av != bv, "<": av < bv, ">": av > bv, "<=": av <= bv, ">=": av >= bv}[op]
                return BV.const(int(r), 1)
            if a.bits == b.bits:
                return BV.const(int(op in ("==", "<=", ">=")), 1)
            if op in ("==", "!="):
                # definite inequality when some bit position holds different constants
                for x, y in zip(a.bits, b.bits):
                    if isinstance(x, int) and isinstance(y, int) and x != y:
                        return BV.const(int(op == "!="), 1)
                if bv is not None and not sg:
                    eq = 1
                    for x, y in zip(a.bits, b.bits):
                        eq = b_and(eq, x if y else b_not(x))
                    return BV([eq if op == "==" else b_not(eq)])
                if ww <= 64 and not any(has_x(x) for x in a.bits + b.bits):
                    # bit-wise equality of two symbolic words
                    eq = 1
                    for x, y in zip(a.bits, b.bits):
                        eq = b_and(eq, b_not(b_xor(x, y)))
                    return BV([eq if op == "==" else b_not(eq)])
            if not sg or (a.bits[-1] == 0 and b.bits[-1] == 0):
                amin, amax, bmin, bmax = a.minv(), a.maxv(), b.minv(), b.maxv()
                dec = None
                if op == "<":
                    dec = True if amax < bmin else False if amin >= bmax else None
                elif op == "<=":
                    dec = True if amax <= bmin else False if amin > bmax else None
                elif op == ">":
                    dec = True if amin > bmax else False if amax <= bmin else None
                elif op == ">=":
                    dec = True if amin >= bmax else False if amax < bmin else None
                if dec is not None:
                    return BV.const(int(dec), 1)
            return BV([("x", "cmp", op, tuple(a.bits), tuple(b.bits))])
        ww = w
        a2, b2 = a.cast(ww, sg), b.cast(ww, sg)
        av, bv = a2.value(), b2.value()
        mask = (1 << ww) - 1
        if av is not None and bv is not None:
            if op == "+":
                return BV.const((av + bv) & mask, ww)
            if op == "-":
                return BV.const((av - bv) & mask, ww)
            if op == "*":
                return BV.const((av * bv) & mask, ww)
            if op == "/" and bv:
                return BV.const((av // bv) & mask, ww)
            if op == "%" and bv:
                return BV.const((av % bv) & mask, ww)
        if op == "+":
            if all(x == 0 or y == 0 for x, y in zip(a2.bits, b2.bits)):
                return BV([x if y == 0 else y for x, y in zip(a2.bits, b2.bits)])
        if op == "*" and (bv is not None and bv and bv & (bv - 1) == 0):
            s = bv.bit_length() - 1
            return BV(([0] * s + a2.bits)[:ww])
        if op == "*" and (av is not None and av and av & (av - 1) == 0):
            s = av.bit_length() - 1
            return BV(([0] * s + b2.bits)[:ww])
        nonneg = (not sg) or a2.bits[-1] == 0
        if op == "/" and nonneg and bv is not None and bv and bv & (bv - 1) == 0:
            s = bv.bit_length() - 1
            return BV(a2.bits[s:] + [0] * s)
        if op == "%" and nonneg and bv is not None and bv and bv & (bv - 1) == 0:
            s = bv.bit_length() - 1
            return BV(a2.bits[:s] + [0] * (ww - s))
        return BV([("x", "arith", op, tuple(a2.bits), tuple(b2.bits), i) for i in range(ww)])

    # -- calls
    def args_of(self, n):
        c = n["c"]
        k = n["k"]
        if k == "CallExpr":
            return None, c[1:]
        if k == "CXXMemberCallExpr":
            me = c[0]
            me0 = me
            while me0["k"] in ("ParenExpr", "ImplicitCastExpr"):
                me0 = me0["c"][0]
            obj = me0["c"][0] if me0.get("c") else None
            return (obj, me0.get("arrow")), c[1:]
        if k == "CXXOperatorCallExpr":
            return None, c[1:]
        return None, c

    def callexpr(self, n, t):
        m = self.m
        callee = n.get("callee")
        cname = n.get("cname") or ""
        if callee is None:
            raise Unsupported("indirect call (line %s)" % n.get("l"))
        objinfo, argn = self.args_of(n)
        if m.hooks is not None:
            h = m.hooks.call(self, n, callee, cname, objinfo, argn)
            if h is not None:
                return h[0]
        # builtins and libc
        if cname == "__builtin_expect" and argn:
            return self.rv(argn[0])
        if cname in ("__builtin_bswap16", "__builtin_bswap32", "__builtin_bswap64", "__bswap_16", "__bswap_32", "__bswap_64"):
            v = self.rv(argn[0])
            w = int("".join(ch for ch in cname if ch.isdigit()))
            v = v.cast(w, False)
            by = [v.bits[i * 8:(i + 1) * 8] for i in range(w // 8)]
            by.reverse()
            return BV([b for x in by for b in x])
        if cname in ("memcpy", "memmove", "__builtin_memcpy") and n.get("ext", True):
            d, s, l = self.rv(argn[0]), self.rv(argn[1]), self.rv(argn[2])
            ln = l.value() if isinstance(l, BV) else None
            if not isinstance(d, Ptr) or not isinstance(s, Ptr) or ln is None or d.loc is None or s.loc is None:
                raise Unsupported("memcpy with non-constant shape")
            m.store_bits(d.loc.region, d.loc.off, m.load_bits(s.loc.region, s.loc.off, ln * 8))
            return d
        if cname in ("memset", "__builtin_memset") and n.get("ext", True):
            d, v, l = self.rv(argn[0]), self.rv(argn[1]), self.rv(argn[2])
            ln = l.value() if isinstance(l, BV) else None
            if not isinstance(d, Ptr) or ln is None or d.loc is None:
                raise Unsupported("memset with non-constant shape")
            byte = v.cast(8, False).bits
            m.store_bits(d.loc.region, d.loc.off, byte * ln)
            return d
        cq = n.get("cqual") or ""
        if cq in ("std::min", "std::max") and len(argn) == 2:
            a_, b_ = self.rv(argn[0]), self.rv(argn[1])
            if isinstance(a_, Loc):
                a_ = m.load(a_)
            if isinstance(b_, Loc):
                b_ = m.load(b_)
            av_, bv_ = (a_.value() if isinstance(a_, BV) else None), (b_.value() if isinstance(b_, BV) else None)
            if av_ is None or bv_ is None:
                if not isinstance(a_, BV) or not isinstance(b_, BV):
                    raise Unsupported("%s of non-integers" % cq)
                # symbolic operands: select by the comparison bit (decided from the value ranges when they do not overlap)
                ww_ = max(a_.w(), b_.w())
                sg_ = is_signed(self.ty(argn[0]))
                lt = self.arith("<", a_, b_, ww_, sg_, n).bits[0]
                a2_, b2_ = a_.cast(ww_, sg_), b_.cast(ww_, sg_)
                first, second = (a2_, b2_) if cq == "std::min" else (b2_, a2_)
                if lt == 1:
                    return first
                if lt == 0:
                    return second
                return BV([b_mux(lt, x, y) for x, y in zip(first.bits, second.bits)])
            r_ = min(av_, bv_) if cq == "std::min" else max(av_, bv_)
            return BV.const(r_, max(a_.w(), b_.w()))
        if cq == "std::distance" and len(argn) == 2:
            a_, b_ = self.rv(argn[0]), self.rv(argn[1])
            if isinstance(a_, Ptr) and isinstance(b_, Ptr) and a_.loc is not None and b_.loc is not None and a_.loc.region == b_.loc.region:
                ew = type_bits(a_.loc.t) or 8
                return BV.const(((b_.loc.off - a_.loc.off) // ew) & ((1 << 64) - 1), 64)
            raise Unsupported("std::distance of unrelated iterators")
        if cq in ("std::copy", "std::copy_n", "std::fill", "std::fill_n", "std::memcpy", "std::memset", "std::equal"):
            vals = [self.rv(a) for a in argn]
            if cq == "std::copy" and all(isinstance(x, Ptr) and x.loc is not None for x in vals[:3]) and vals[0].loc.region == vals[1].loc.region:
                nb = vals[1].loc.off - vals[0].loc.off
                m.store_bits(vals[2].loc.region, vals[2].loc.off, m.load_bits(vals[0].loc.region, vals[0].loc.off, nb))
                return Ptr(Loc(vals[2].loc.region, vals[2].loc.off + nb, vals[2].loc.t))
            if cq == "std::fill" and all(isinstance(x, Ptr) and x.loc is not None for x in vals[:2]) and isinstance(vals[2], BV):
                ew = type_bits(vals[0].loc.t)
                nb = vals[1].loc.off - vals[0].loc.off
                m.store_bits(vals[0].loc.region, vals[0].loc.off, vals[2].cast(ew, False).bits * (nb // ew))
                return None
            raise Unsupported("%s with unsupported arguments" % cq)
        fs = m.db.functions.get(callee)
        if fs is None:
            raise Unsupported("call of %s, whose body is not part of the analysed program" % callee.split("(")[0])
        # evaluate arguments
        args = []
        for p, a in zip(fs["params"], argn):
            pt = facts.tyi(fs, p.get("t"))
            args.append(self.arg_value(a, pt))
        this = None
        if n["k"] == "CXXMemberCallExpr":
            obj, arrow = objinfo
            if obj is None:
                raise Unsupported("member call without object")
            ov = self.ev(obj)
            if arrow:
                if isinstance(ov, Loc):
                    ov = m.load(ov)
                if not isinstance(ov, Ptr) or ov.loc is None:
                    raise Unsupported("-> call on non-pointer")
                ov = ov.loc
            if isinstance(ov, BV):
                raise Unsupported("member call on a scalar")
            this = ov
        elif n["k"] == "CXXOperatorCallExpr" and fs.get("kind") == "method":
            ov = self.ev(argn[0])
            if not isinstance(ov, Loc):
                raise Unsupported("operator call on a non-object")
            this = ov
            args = []
            for p, a in zip(fs["params"], argn[1:]):
                args.append(self.arg_value(a, facts.tyi(fs, p.get("t"))))
        if fs.get("implicit") and fs.get("special") in ("copy_assign", "move_assign") and this is not None:
            src = args[0]
            if isinstance(src, Loc) and is_pod(m.db, fs["rec"]):
                w = REC_SIZES[fs["rec"]] * 8
                m.store_bits(this.region, this.off, m.load_bits(src.region, src.off, w))
                return this
            raise Unsupported("implicit assignment of a non-trivial record %s" % fs["rec"])
        m.trace_calls.add(callee)
        return m.call(fs, this, args, self.depth + 1)

    def arg_value(self, a, pt):
        k = (pt or {}).get("k")
        if k == "ref":
            v = self.ev(a)
            return v
        if k == "rec":
            v = self.ev(a)
            if isinstance(v, Loc):
                # by-value copy
                r = self.m.new_region("A")
                w = type_bits(pt)
                if w is None:
                    raise Unsupported("record argument of unknown size")
                self.m.store_bits(r, 0, self.m.load_bits(v.region, v.off, w))
                return Loc(r, 0, pt)
            raise Unsupported("record argument from a non-object")
        return self.rv(a)

    def construct(self, n, loc):
        """run constructor call n on storage loc"""
        m = self.m
        if m.hooks is not None and m.hooks.construct(self, n, loc):
            return
        callee = n.get("callee")
        c = n.get("c", [])
        fs = m.db.functions.get(callee) if callee else None
        rec = n.get("crec")
        rinfo = m.db.records.get(rec) if rec else None
        if fs is None:
            # implicit copy / move of a trivially copyable record, or trivial default construction
            if len(c) == 1 and callee and ("(const " + "" in callee or "&&)" in callee or "&)" in callee):
                src = self.ev(c[0])
                if isinstance(src, Loc):
                    w = type_bits(loc.t) or (rinfo["size"] * 8 if rinfo else None)
                    if w is None:
                        raise Unsupported("copy of a record of unknown size")
                    m.store_bits(loc.region, loc.off, m.load_bits(src.region, src.off, w))
                    return
            if not c:
                return          # trivial default constructor: storage stays as it is
            raise Unsupported("constructor %s has no analysable body" % (callee or "?").split("(")[0])
        if fs.get("special") in ("copy_ctor", "move_ctor") and fs.get("implicit"):
            src = self.ev(c[0])
            if not isinstance(src, Loc) or not is_pod(m.db, fs["rec"]):
                raise Unsupported("implicit copy of a non-trivial record %s" % fs["rec"])
            w = REC_SIZES[fs["rec"]] * 8
            m.store_bits(loc.region, loc.off, m.load_bits(src.region, src.off, w))
            return
        args = []
        for p, a in zip(fs["params"], c):
            args.append(self.arg_value(a, facts.tyi(fs, p.get("t"))))
        if len(c) < len(fs["params"]):
            raise Unsupported("constructor call with default arguments")
        m.trace_calls.add(callee)
        m.call(fs, Loc(loc.region, loc.off, loc.t), args, self.depth + 1)


_POD = {}


def is_pod(db, rec):
    if rec in _POD:
        return _POD[rec]
    _POD[rec] = False
    r = db.records.get(rec)
    ok = r is not None and not r.get("user_copy_ctor") and not r.get("user_copy_assign") and not r.get("user_dtor")
    if ok:
        for b in r.get("bases", []):
            ok = ok and is_pod(db, b)
        for fl in r.get("fields", []):
            t = facts.tyi(r, fl["t"])
            while t and t.get("k") == "arr":
                t = t.get("to")
            k = (t or {}).get("k")
            if k in ("int", "bool", "enum"):
                continue
            if k == "rec" and is_pod(db, t.get("name")):
                continue
            ok = False
    _POD[rec] = ok
    return ok


def always_throws(n):
    if n is None:
        return False
    k = n["k"]
    if k == "CXXThrowExpr":
        return True
    if k in ("ExprWithCleanups", "ParenExpr"):
        return always_throws(n["c"][0])
    if k == "CompoundStmt":
        return any(always_throws(x) for x in n.get("c", []))
    return False


_FIELD_CACHE = {}


def rec_of_field(db, rec, name):
    key = (rec, name)
    r = _FIELD_CACHE.get(key)
    if r is not None:
        return r[0]
    field_of(db, rec, name)
    return _FIELD_CACHE[key][0]


def field_of(db, rec, name):
    key = (rec, name)
    if key in _FIELD_CACHE:
        return _FIELD_CACHE[key][1]
    seen = set()
    work = [rec]
    while work:
        rn = work.pop(0)
        if rn in seen:
            continue
        seen.add(rn)
        r = db.records.get(rn)
        if r is None:
            continue
        for fl in r.get("fields", []):
            if fl["name"] == name:
                _FIELD_CACHE[key] = (r, fl)
                return fl
        work.extend(r.get("bases", []))
    _FIELD_CACHE[key] = (None, None)
    return None
