"""E-EXC: which exception types may escape a function.

Path-insensitive over-approximation over the resolved call graph, with
try/catch filtering by the exception class hierarchy.  Virtual calls are
expanded to all overriders of the static callee (class-hierarchy analysis);
virtual calls whose receiver is another layer (`inner_pdu()` / `parent_pdu()` /
a PDU* parameter) are accounted to that layer's own row (modular boundary,
DESIGN.md 2.2) and are reported as a separate "delegated" set.
"""
from . import facts
from .facts import strip

STD_BASES = {
    "std::out_of_range": ["std::logic_error"], "std::length_error": ["std::logic_error"],
    "std::invalid_argument": ["std::logic_error"], "std::domain_error": ["std::logic_error"],
    "std::logic_error": ["std::exception"], "std::runtime_error": ["std::exception"],
    "std::range_error": ["std::runtime_error"], "std::overflow_error": ["std::runtime_error"],
    "std::bad_alloc": ["std::exception"], "std::bad_cast": ["std::exception"],
    "std::bad_function_call": ["std::exception"], "std::ios_base::failure": ["std::runtime_error"],
    "std::exception": [],
}

# standard-library entry points that raise something other than bad_alloc
STD_THROWERS = {
    "at": "std::out_of_range", "substr": "std::out_of_range", "stoi": "std::invalid_argument",
    "stol": "std::invalid_argument", "stoul": "std::invalid_argument", "stoull": "std::invalid_argument",
    "stod": "std::invalid_argument", "erase_checked": "std::out_of_range",
}


class Exc(object):
    def __init__(self, db, boundary=None, discharge=None):
        self.db = db
        self.memo = {}
        self.in_progress = set()
        self.boundary = boundary or (lambda f, call: False)
        self.discharge = discharge or (lambda f, call, exc_type: None)
        self.discharged = []   # (function, call site, type, reason)
        self.delegated = {}    # fid -> set of callee names delegated at the modular boundary
        self.callback_sites = {}

    # -- hierarchy -------------------------------------------------------------------
    def bases_of(self, t):
        out = [t]
        todo = [t]
        while todo:
            x = todo.pop()
            bs = STD_BASES.get(x)
            if bs is None:
                r = self.db.records.get(x)
                bs = r["bases"] if r else []
            for b in bs:
                if b not in out:
                    out.append(b)
                    todo.append(b)
        return out

    def caught_by(self, t, handler_type):
        if handler_type is None:
            return True
        return handler_type in self.bases_of(t)

    def type_name(self, f, ti):
        t = facts.tyi(f, ti)
        while t and t.get("k") in ("ref", "ptr"):
            t = t.get("to")
        if not t:
            return "?"
        return t.get("name") or t.get("s", "?").replace("const ", "")

    # -- main ---------------------------------------------------------------------------
    def escapes(self, fid):
        """{exception type: (site, chain)} that may propagate out of function fid"""
        if fid in self.memo:
            return self.memo[fid]
        if fid in self.in_progress:
            return {}
        f = self.db.fn(fid)
        if f is None:
            return {}
        if f.get("nothrow") and f.get("kind") != "dtor":
            self.memo[fid] = {}
            return {}
        self.in_progress.add(fid)
        out = {}
        try:
            for i in f.get("inits", []):
                if i.get("e"):
                    self.walk(f, i["e"], [], out, None)
            if f.get("body"):
                self.walk(f, f["body"], [], out, None)
        finally:
            self.in_progress.discard(fid)
        self.memo[fid] = out
        return out

    def add(self, out, f, trystack, t, site, chain):
        """an exception of type t raised at this point under the given try stack"""
        for handlers in reversed(trystack):
            for ht, hbody in handlers:
                if self.caught_by(t, ht):
                    return  # handler body is walked separately
        if t not in out:
            out[t] = (site, chain)

    def walk(self, f, n, trystack, out, caught_types):
        if not isinstance(n, dict):
            return
        k = n["k"]
        if k == "CXXTryStmt":
            cs = n.get("c", [])
            body, handlers = cs[0], cs[1:]
            hs = []
            for h in handlers:
                ht = None if h.get("catchall") else self.type_name(f, h.get("caught"))
                hs.append((ht, h))
            # what the body can throw (needed for rethrow in handlers)
            inner = {}
            self.walk(f, body, [], inner, caught_types)
            for t, (site, chain) in inner.items():
                handled = None
                for ht, h in hs:
                    if self.caught_by(t, ht):
                        handled = (ht, h)
                        break
                if handled is None:
                    self.add(out, f, trystack, t, site, chain)
            for ht, h in hs:
                ct = [t for t in inner if self.caught_by(t, ht)]
                for c in h.get("c", []):
                    self.walk(f, c, trystack, out, dict((t, inner[t]) for t in ct))
            return
        if k == "CXXThrowExpr":
            if n.get("rethrow"):
                for t, (site, chain) in (caught_types or {}).items():
                    self.add(out, f, trystack, t, site, chain)
            else:
                t = self.type_name(f, n.get("thrown"))
                self.add(out, f, trystack, t, facts.loc(f, n), [f["id"]])
            for c in n.get("c", []):
                self.walk(f, c, trystack, out, caught_types)
            return
        if k == "LambdaExpr":
            # the body runs when called, not here
            for c in n.get("c", []):
                self.walk(f, c, trystack, out, caught_types)
            return
        if k in ("CallExpr", "CXXMemberCallExpr", "CXXOperatorCallExpr", "CXXConstructExpr", "CXXTemporaryObjectExpr"):
            self.call(f, n, trystack, out)
        for c in n.get("c", []):
            self.walk(f, c, trystack, out, caught_types)

    def call(self, f, n, trystack, out):
        callee = n.get("callee")
        if not callee:
            # call through a function pointer / std::function: user callback
            return
        if n.get("ext"):
            name = n.get("cname")
            crec = n.get("crec", "")
            if name in STD_THROWERS and crec.startswith("std::"):
                t = STD_THROWERS[name]
                why = self.discharge(f, n, t)
                if why:
                    self.discharged.append((f["id"], facts.loc(f, n), t, why))
                else:
                    self.add(out, f, trystack, t, facts.loc(f, n), [f["id"], callee])
            if name == "operator()" and crec.startswith("std::function"):
                self.callback_sites.setdefault(f["id"], []).append(facts.loc(f, n))
                self.add(out, f, trystack, "<user callback>", facts.loc(f, n), [f["id"], callee])
            return
        targets = []
        if n.get("virt"):
            if self.boundary(f, n):
                self.delegated.setdefault(f["id"], set()).add(n.get("cname"))
                return
            targets = [callee] + self.db.all_overriders(callee)
        else:
            targets = [callee]
        for t_id in targets:
            if self.db.fn(t_id) is None:
                continue
            for t, (site, chain) in self.escapes(t_id).items():
                why = self.discharge(f, n, t)
                if why:
                    self.discharged.append((f["id"], facts.loc(f, n), t, why))
                    continue
                self.add(out, f, trystack, t, site, [f["id"]] + chain[:8])


def layer_boundary(f, call):
    """virtual call whose receiver is another layer object: inner_pdu()/parent_pdu()
    results, or a PDU pointer/reference that is not `this`"""
    from . import cfg
    r = cfg.receiver(call)
    if r is None:
        return False
    r = facts.strip_all(r)
    if r["k"] == "CXXThisExpr":
        return False
    if r["k"] == "CXXMemberCallExpr" and r.get("cname") in ("inner_pdu", "parent_pdu"):
        return True
    if r["k"] == "MemberExpr" and r.get("member") in ("inner_pdu_", "parent_pdu_"):
        return True
    if r["k"] == "UnaryOperator" and r.get("op") == "*":
        return layer_boundary_expr(r["c"][0])
    return layer_boundary_expr(r)


def layer_boundary_expr(r):
    r = facts.strip_all(r)
    if r["k"] == "DeclRefExpr":
        return True   # a layer held in a local / parameter: some other object
    if r["k"] == "CXXMemberCallExpr" and r.get("cname") in ("inner_pdu", "parent_pdu", "pdu", "release_inner_pdu"):
        return True
    if r["k"] == "MemberExpr" and r.get("member") in ("inner_pdu_", "parent_pdu_"):
        return True
    return False
