"""E-BITS (part 1): value bounds of integer expressions.

Bounds(f).maxv(e) / .minv(e) give an upper / lower bound of the (unsigned) value
of expression e: exact for constants, bit-fields, masks and constant shifts;
single-assignment locals are looked through; `a - C` is only bounded when a
dominating guard (or the lower bound of a) excludes wrap-around; everything
else falls back to the range of the expression's type.
Used to discharge "cannot throw" residues (small_uint<n>(x), PDUOption length
limits), destination-capacity obligations and silent-truncation checks.
"""
from . import facts, cfg, cond
from .facts import strip

DB = [None]   # set by callers that want one-level accessor inlining


def type_max(t):
    if not t:
        return None
    if t.get("k") == "bool":
        return 1
    if t.get("k") in ("int", "enum") and t.get("w"):
        return (1 << t["w"]) - 1
    return None


def bitlen_max(v):
    return (1 << v.bit_length()) - 1


class Bounds(object):
    def __init__(self, f, use_guards=True):
        self.f = f
        self.g = None
        self.use_guards = use_guards
        self._single = None

    def cfg(self):
        if self.g is None and self.use_guards and self.f.get("cfg"):
            self.g = cfg.FnCFG(self.f)
        return self.g

    def single_assign(self):
        """locals assigned exactly once (at their declaration) -> init node"""
        if self._single is not None:
            return self._single
        decl, multi = {}, set()
        for n in facts.fn_nodes(self.f):
            if n["k"] == "VarDecl" and n.get("c"):
                decl[n["var"]] = n["c"][0]
            elif n["k"] in ("BinaryOperator", "CompoundAssignOperator") and n.get("op", "").endswith("=") and \
                    n["op"] not in ("==", "!=", "<=", ">="):
                l = strip(n["c"][0])
                if l["k"] == "DeclRefExpr":
                    multi.add(l.get("var"))
            elif n["k"] == "UnaryOperator" and n.get("op") in ("++", "--", "&"):
                l = strip(n["c"][0])
                if l["k"] == "DeclRefExpr":
                    multi.add(l.get("var"))
        self._single = dict((v, e) for v, e in decl.items() if v not in multi)
        return self._single

    def resolve(self, e):
        """look through single-assignment locals"""
        e = strip(e)
        seen = 0
        while e["k"] == "DeclRefExpr" and e.get("var") in self.single_assign() and seen < 8:
            t = facts.ty(self.f, e)
            if not t or t.get("k") not in ("int", "bool", "enum"):
                break
            e = strip(self.single_assign()[e["var"]])
            seen += 1
        return e

    # -- flow-sensitive bounds of re-assigned integer locals --------------------------
    def flow(self):
        """{block id: {var: max}} at block entry, by forward dataflow (join = max,
        widening to the type's range when a bound keeps growing)"""
        if getattr(self, "_flow", None) is not None:
            return self._flow
        g = self.cfg()
        self._flow = {}
        if g is None:
            return self._flow
        self._visits = {}

        def join(a, b):
            if a == b:
                return a
            out = {}
            for k_ in set(a) | set(b):
                if k_ in a and k_ in b:
                    out[k_] = max(a[k_], b[k_])
                # a variable bounded on one path only is unbounded after the join
            return out

        try:
            self._in_flow = True
            self._flow = cfg.forward_dataflow(g, {}, self._flow_transfer, join, max_iter=4000)
        except facts.AnalysisBroken:
            self._flow = {}
        finally:
            self._in_flow = False
        return self._flow

    def _flow_transfer(self, n, st, pos):
        k = n["k"]
        f = self.f
        if k in ("DeclStmt", "VarDecl"):
            for ch in (n.get("c", []) if k == "DeclStmt" else [n]):
                if ch.get("k") == "VarDecl" and ch.get("c"):
                    t = facts.tyi(f, ch.get("t"))
                    if t and t.get("k") in ("int", "bool", "enum"):
                        self._env = st
                        mv = self.maxv(ch["c"][0])
                        if mv is not None:
                            st = dict(st)
                            st[ch["var"]] = mv
            return st
        if k in ("BinaryOperator", "CompoundAssignOperator") and n.get("op", "") in \
                ("=", "+=", "-=", "|=", "&=", "<<=", ">>=", "*=", "/=", "%=", "^="):
            l = strip(n["c"][0])
            if l["k"] == "DeclRefExpr" and l.get("var"):
                t = facts.ty(f, l)
                tm = type_max(t)
                if tm is None:
                    return st
                self._env = st
                cnt = self._visits.get(n["id"], 0) + 1
                self._visits[n["id"]] = cnt
                if n["op"] == "=":
                    mv = self.maxv(n["c"][1])
                elif n["op"] == "&=":
                    a, b = st.get(l["var"], tm), self.maxv(n["c"][1])
                    mv = min(a, b) if b is not None else a
                elif n["op"] == ">>=":
                    k_ = facts.cval(n["c"][1])
                    mv = st.get(l["var"], tm) >> k_ if k_ is not None else st.get(l["var"], tm)
                elif n["op"] in ("/=", "%="):
                    mv = st.get(l["var"], tm)
                elif n["op"] == "|=":
                    a, b = st.get(l["var"], tm), self.maxv(n["c"][1])
                    mv = bitlen_max(max(a, b)) if b is not None else tm
                else:
                    mv = tm
                if mv is None or cnt > 6:
                    mv = tm     # widening
                st = dict(st)
                st[l["var"]] = min(mv, tm)
            return st
        if k == "UnaryOperator" and n.get("op") in ("++", "--"):
            l = strip(n["c"][0])
            if l["k"] == "DeclRefExpr" and l.get("var") in st:
                st = dict(st)
                st.pop(l["var"], None)
            return st
        return st

    def env_at(self, node):
        """flow state just before `node` is evaluated"""
        g = self.cfg()
        if g is None:
            return {}
        pos = g.pos(node)
        fl = self.flow()
        if pos is None or pos[0] not in fl:
            return {}
        st = fl[pos[0]]
        blk = g.blocks[pos[0]]
        saved = getattr(self, "_visits", {})
        self._visits = {}
        for i, eid in enumerate(blk["e"][:pos[1]]):
            nd = g.idx.get(eid)
            if nd is not None:
                st = self._flow_transfer(nd, st, (pos[0], i))
        self._visits = saved
        return st

    # -- known-zero bit masks --------------------------------------------------------------
    def kz(self, e, depth=0):
        """mask of bits known to be zero in e (within 64 bits)"""
        ALL = (1 << 64) - 1
        if e is None or depth > 30:
            return 0
        v = facts.cval(e) if (e["k"] != "DeclRefExpr" or "v" in e) else None
        if v is not None and isinstance(v, int) and v >= 0:
            return ALL & ~v
        f = self.f
        k = e["k"]
        c = e.get("c", [])
        t = facts.ty(f, e)
        tm = type_max(t)
        above = (ALL & ~tm) if tm is not None else 0
        if k in ("ParenExpr", "ExprWithCleanups", "MaterializeTemporaryExpr", "CXXBindTemporaryExpr", "ConstantExpr"):
            return self.kz(c[0], depth + 1)
        if k in ("ImplicitCastExpr", "CStyleCastExpr", "CXXStaticCastExpr", "CXXFunctionalCastExpr"):
            if e.get("ck") in ("IntegralCast", "LValueToRValue", "NoOp", None) and c:
                st = facts.ty(f, c[0])
                if st and st.get("sg") and t and t.get("w", 0) > st.get("w", 0):
                    return above     # sign extension
                sub = self.kz(c[0], depth + 1)
                return (sub | above) if tm is not None else sub
            return above
        if k == "MemberExpr" and e.get("bitw"):
            return ALL & ~((1 << e["bitw"]) - 1)
        if k == "DeclRefExpr":
            sa = self.single_assign()
            if e.get("var") in sa and t and t.get("k") in ("int", "bool", "enum"):
                return self.kz(sa[e["var"]], depth + 1) | above
            return above
        if k == "BinaryOperator":
            op = e["op"]
            if op == "&":
                return self.kz(c[0], depth + 1) | self.kz(c[1], depth + 1) | above
            if op in ("|", "^"):
                return (self.kz(c[0], depth + 1) & self.kz(c[1], depth + 1)) | above
            if op == "<<":
                k_ = facts.cval(c[1])
                if k_ is not None and 0 <= k_ < 64:
                    return ((self.kz(c[0], depth + 1) << k_) | ((1 << k_) - 1) | above) & ALL
            if op == ">>":
                k_ = facts.cval(c[1])
                if k_ is not None and 0 <= k_ < 64:
                    z = self.kz(c[0], depth + 1)
                    return ((z >> k_) | (ALL & ~(ALL >> k_)) | above) & ALL
            return above
        if k == "CallExpr" and e.get("cname") in ("be_to_host", "host_to_be", "le_to_host", "host_to_le") and len(c) == 2:
            z = self.kz(c[1], depth + 1)
            w = (t or {}).get("w")
            if e.get("cname") in ("le_to_host", "host_to_le"):
                return z | above         # identity on a little-endian host
            if w in (16, 32, 64):
                nb = w // 8
                out = 0
                for i in range(nb):
                    byte = (z >> (8 * i)) & 0xff
                    out |= byte << (8 * (nb - 1 - i))
                return out | above
            if w == 8:
                return z | above
        return above

    # ------------------------------------------------------------------
    def maxv(self, e, depth=0):
        m = self._maxv(e, depth)
        if e is not None and depth == 0:
            z = self.kz(e)
            zm = ((1 << 64) - 1) & ~z
            if m is None or zm < m:
                return zm
        return m

    def _maxv(self, e, depth=0):
        f = self.f
        if e is None or depth > 40:
            return None
        if e["k"] != "DeclRefExpr" or "v" in e:
            v = facts.cval(e)
            if v is not None and isinstance(v, int) and v >= 0:
                return v
        k = e["k"]
        c = e.get("c", [])
        t = facts.ty(f, e)
        tm = type_max(t)

        def cap(x):
            if x is None:
                return tm
            return min(x, tm) if tm is not None else x
        if k in ("ParenExpr", "ExprWithCleanups", "MaterializeTemporaryExpr", "CXXBindTemporaryExpr", "ConstantExpr"):
            return self.maxv(c[0], depth + 1)
        if k in ("ImplicitCastExpr", "CStyleCastExpr", "CXXStaticCastExpr", "CXXFunctionalCastExpr"):
            ck = e.get("ck")
            if ck in ("IntegralCast", "LValueToRValue", "NoOp", "IntegralToBoolean", None, "ConstructorConversion",
                      "UserDefinedConversion"):
                sub = self.maxv(c[0], depth + 1) if c else None
                st = facts.ty(f, c[0]) if c else None
                if st and st.get("k") == "int" and st.get("sg") and t and not t.get("sg") and \
                        (self.minv_signed_nonneg(c[0]) is False):
                    return tm
                return cap(sub)
            return tm
        if k == "MemberExpr" and e.get("bitw"):
            return (1 << e["bitw"]) - 1
        if k == "DeclRefExpr":
            sa = self.single_assign()
            if e.get("var") in sa and t and t.get("k") in ("int", "bool", "enum"):
                return cap(self.maxv(sa[e["var"]], depth + 1))
            if t and t.get("k") in ("int", "bool", "enum") and not e.get("parm") and not e.get("glob"):
                if getattr(self, "_in_flow", False):
                    env = getattr(self, "_env", {})
                else:
                    env = self.env_at(e)
                if e.get("var") in env:
                    return cap(env[e["var"]])
            return tm
        if k == "BinaryOperator":
            op = e["op"]
            a = self.maxv(c[0], depth + 1)
            b = self.maxv(c[1], depth + 1)
            if op == "&":
                xs = [x for x in (a, b) if x is not None]
                return cap(min(xs)) if xs else tm
            if op in ("|", "^"):
                if a is not None and b is not None:
                    return cap(bitlen_max(max(a, b)))
                return tm
            if op == ">>":
                k_ = facts.cval(c[1])
                if a is not None and k_ is not None and k_ >= 0:
                    return cap(a >> k_)
                return cap(a)
            if op == "<<":
                k_ = facts.cval(c[1])
                if a is not None and k_ is not None and 0 <= k_ < 64:
                    return cap(a << k_) if (tm is None or (a << k_) <= tm) else tm
                return tm
            if op == "+":
                if a is not None and b is not None and (tm is None or a + b <= tm):
                    return a + b
                return tm
            if op == "*":
                if a is not None and b is not None and (tm is None or a * b <= tm):
                    return a * b
                return tm
            if op == "/":
                k_ = facts.cval(c[1])
                if a is not None and k_:
                    return cap(a // k_)
                return cap(a)
            if op == "%":
                k_ = facts.cval(c[1])
                return cap(k_ - 1) if k_ else cap(b)
            if op in ("<", ">", "<=", ">=", "==", "!=", "&&", "||"):
                return 1
            if op == "-":
                cc = facts.cval(c[1])
                if cc is not None and a is not None and cc >= 0 and self.at_least(c[0], cc, e):
                    return cap(a - cc)
                return tm
            if op == ",":
                return b
            return tm
        if k == "UnaryOperator":
            return 1 if e["op"] == "!" else tm
        if k == "ConditionalOperator":
            a, b = self.maxv(c[1], depth + 1), self.maxv(c[2], depth + 1)
            return cap(max(a, b)) if (a is not None and b is not None) else tm
        if k in ("CXXMemberCallExpr", "CallExpr", "CXXOperatorCallExpr"):
            db = DB[0]
            g = db.fn(e.get("callee")) if (db is not None and e.get("callee")) else None
            if g is not None and g.get("body") and depth < 6:
                st = g["body"].get("c", [])
                if len(st) == 1 and st[0]["k"] == "ReturnStmt" and st[0].get("c"):
                    r = st[0]["c"][0]
                    if not any(x.get("parm") for x in facts.walk(r)):
                        return cap(Bounds(g, False).maxv(r, depth + 10))
            return tm
        if k == "CXXConstructExpr" and len(c) == 1:
            return self.maxv(c[0], depth + 1)
        return tm

    def minv_signed_nonneg(self, e):
        return None

    def minv(self, e, depth=0):
        """lower bound of an unsigned expression (0 when unknown)"""
        if e is None or depth > 20:
            return 0
        v = facts.cval(e) if (e["k"] != "DeclRefExpr" or "v" in e) else None
        if v is not None and isinstance(v, int):
            return max(v, 0)
        e0 = strip(e)
        k = e0["k"]
        c = e0.get("c", [])
        if k in ("CStyleCastExpr", "CXXStaticCastExpr", "CXXFunctionalCastExpr"):
            # widening casts keep the lower bound
            return self.minv(c[0], depth + 1)
        if k == "DeclRefExpr":
            sa = self.single_assign()
            if e0.get("var") in sa:
                return self.minv(sa[e0["var"]], depth + 1)
            return 0
        if k == "BinaryOperator":
            op = e0["op"]
            if op == "+":
                return self.minv(c[0], depth + 1) + self.minv(c[1], depth + 1)
            if op == "*":
                return self.minv(c[0], depth + 1) * self.minv(c[1], depth + 1)
            if op == "<<":
                k_ = facts.cval(c[1])
                return self.minv(c[0], depth + 1) << k_ if k_ is not None and 0 <= k_ < 32 else 0
            if op == "|":
                return max(self.minv(c[0], depth + 1), self.minv(c[1], depth + 1))
        if k == "ParenExpr":
            return self.minv(c[0], depth + 1)
        return 0

    def at_least(self, a, cc, at_node):
        """is expression a >= cc whenever at_node is evaluated?"""
        if cc == 0 or self.minv(a) >= cc:
            return True
        g = self.cfg()
        if g is None:
            return False
        pos = g.pos(at_node)
        if pos is None:
            return False
        a_str = facts.expr_str(self.resolve(a))
        a_str2 = facts.expr_str(strip(a))
        for op, l, r in cond.guards_facts(g, pos):
            if r is None:
                continue
            for (x, y, o) in ((l, r, op), (r, l, cond.SWAP.get(op, op))):
                xs = facts.expr_str(strip(x))
                xr = facts.expr_str(self.resolve(x))
                if xs in (a_str, a_str2) or xr in (a_str, a_str2):
                    yv = facts.cval(y)
                    if yv is None:
                        continue
                    if o == ">=" and yv >= cc:
                        return True
                    if o == ">" and yv + 1 >= cc:
                        return True
                    if o == "==" and yv >= cc:
                        return True
        return False


def maxval(f, e, env=None, depth=0):
    return Bounds(f).maxv(e)
