"""E-BYTEWALK: abstract interpretation of small functions that walk a fixed-size
byte container with iterators (carry chains, element-wise mask operations).

Iterators are concrete indices into a container of the real length N; bytes are
abstract:
    ("orig", i, cls)   the caller's byte i; cls in EQ / NE / ANY relative to the
                       function's pivot constant C0 (0xff for an increment, 0 for
                       a decrement)
    ("const", K)       a constant the function stored
    ("inc", b) / ("dec", b)   b plus / minus one (b was known not to wrap)
A test of an ANY byte against C0 forks the run (both outcomes explored, the byte
refined).  Loops run on the concrete indices with a step bound.  Anything outside
this small language raises Unsupported (-> analysis broken, never a verdict).
No libtins code is executed."""
from . import facts
from .facts import strip


class Unsupported(Exception):
    pass


class Undefined(Unsupported):
    """the walk meets an operation C++ leaves undefined (shift count out of range)"""
    pass


class _Fork(Exception):
    pass


class _Ret(Exception):
    def __init__(self, v):
        self.v = v


class _Brk(Exception):
    pass


class Outcome(object):
    def __init__(self, buf, ret, oob, choices):
        self.buf, self.ret, self.oob, self.choices = buf, ret, oob, choices


class Walk(object):
    def __init__(self, f, cont_var, n, c0, init_cls, max_steps=400, ints=None, local_cont=None):
        self.f, self.cont, self.n, self.c0 = f, cont_var, n, c0
        self.init_cls = list(init_cls)
        self.max_steps = max_steps
        self.init_ints = dict(ints or {})
        self.local_cont = dict(local_cont or {})      # record type name -> byte length: a zero-initialised local becomes the container
        self.cont0, self.n0 = cont_var, n

    # -- driver ----------------------------------------------------------------
    def outcomes(self):
        out, work = [], [[]]
        while work:
            pre = work.pop()
            self.choices, self.ci = list(pre), 0
            self.buf = [("orig", i, c) for i, c in enumerate(self.init_cls)]
            self.cont, self.n = self.cont0, self.n0
            self.its, self.ints = {}, dict(self.init_ints)
            self.steps = 0
            self.oob = None
            ret = None
            try:
                self.stmt(self.f["body"])
            except _Ret as r:
                ret = r.v
            except _Fork:
                work.append(pre + [False])
                work.append(pre + [True])
                continue
            out.append(Outcome(list(self.buf), ret, self.oob, list(self.choices)))
            if len(out) > 4096:
                raise Unsupported("too many paths")
        return out

    def choose(self):
        if self.ci < len(self.choices):
            v = self.choices[self.ci]
            self.ci += 1
            return v
        raise _Fork()

    def tick(self):
        self.steps += 1
        if self.steps > self.max_steps:
            raise Unsupported("step bound exceeded (non-terminating walk?)")

    # -- iterators -------------------------------------------------------------
    def is_cont(self, e):
        e = facts.strip_all(e)
        return e["k"] == "DeclRefExpr" and e.get("var") == self.cont

    def it(self, e):
        """index denoted by an iterator-valued expression, or None"""
        e0 = strip(e)
        k = e0["k"]
        if k == "DeclRefExpr" and e0.get("var") in self.its:
            return self.its[e0["var"]]
        if k == "CXXMemberCallExpr" and e0.get("cname") in ("begin", "end", "cbegin", "cend") and e0["c"] and \
                e0["c"][0].get("c") and self.is_cont(e0["c"][0]["c"][0]):
            return 0 if "begin" in e0["cname"] else self.n
        if k == "BinaryOperator" and e0.get("op") in ("+", "-"):
            a = self.it(e0["c"][0])
            if a is not None:
                d = self.int(e0["c"][1])
                return a + d if e0["op"] == "+" else a - d
        if k == "UnaryOperator" and e0.get("op") in ("++", "--") and strip(e0["c"][0]).get("var") in self.its:
            v = strip(e0["c"][0])["var"]
            old = self.its[v]
            self.its[v] = old + (1 if e0["op"] == "++" else -1)
            return old if e0.get("postfix") else self.its[v]
        return None

    def cell(self, e):
        """index of the byte an lvalue designates (`*it`, `addr[i]`), or None"""
        e0 = strip(e, casts=False)
        while e0["k"] in ("ParenExpr",):
            e0 = e0["c"][0]
        if e0["k"] == "UnaryOperator" and e0.get("op") == "*":
            i = self.it(e0["c"][0])
            if i is not None:
                return self.check(i, e0)
        if e0["k"] in ("ArraySubscriptExpr",) or (e0["k"] == "CXXOperatorCallExpr" and e0.get("cname") == "operator[]"):
            base, ix = e0["c"][-2], e0["c"][-1]
            if self.is_cont(base):
                return self.check(self.int(ix), e0)
        return None

    def check(self, i, node):
        if i < 0 or i >= self.n:
            if self.oob is None:
                self.oob = (i, node)
            raise _Ret(("oob", i))
        return i

    # -- values ----------------------------------------------------------------
    def byte_eq(self, i, k):
        """truth of `byte i == k`"""
        b = self.buf[i]
        if b[0] == "const":
            return b[1] == k
        if b[0] == "orig":
            if b[2] == "EQ":
                return k == self.c0
            if k == self.c0:
                if b[2] == "NE":
                    return False
                v = self.choose()
                self.buf[i] = ("orig", b[1], "EQ" if v else "NE")
                return v
        raise Unsupported("test of %s against %s" % (b, k))

    def int(self, e):
        v = facts.cval(e)
        if v is not None:
            return int(v)
        e0 = strip(e)
        k = e0["k"]
        if k == "DeclRefExpr" and e0.get("var") in self.ints:
            return self.ints[e0["var"]]
        if k == "CXXMemberCallExpr" and e0.get("cname") == "size" and e0["c"][0].get("c") and self.is_cont(e0["c"][0]["c"][0]):
            return self.n
        if k == "BinaryOperator":
            op = e0["op"]
            if op == "&&":
                return 1 if (self.int(e0["c"][0]) and self.int(e0["c"][1])) else 0
            if op == "||":
                return 1 if (self.int(e0["c"][0]) or self.int(e0["c"][1])) else 0
            if op in ("<", ">", "<=", ">=", "==", "!="):
                a, b = self.it(e0["c"][0]), self.it(e0["c"][1])
                if a is None and b is None:
                    ca, cb = self.cell_r(e0["c"][0]), self.cell_r(e0["c"][1])
                    if ca is not None and cb is None and op in ("==", "!="):
                        r = self.byte_eq(ca, self.int(e0["c"][1]))
                        return int(r if op == "==" else not r)
                    if cb is not None and ca is None and op in ("==", "!="):
                        r = self.byte_eq(cb, self.int(e0["c"][0]))
                        return int(r if op == "==" else not r)
                    if ca is None and cb is None:
                        a, b = self.int(e0["c"][0]), self.int(e0["c"][1])
                    else:
                        raise Unsupported("comparison `%s`" % facts.expr_str(e0))
                elif a is None or b is None:
                    raise Unsupported("comparison `%s`" % facts.expr_str(e0))
                return int({"<": a < b, ">": a > b, "<=": a <= b, ">=": a >= b, "==": a == b, "!=": a != b}[op])
            if op in ("+", "-", "*", "&", "|", "^"):
                a, b = self.int(e0["c"][0]), self.int(e0["c"][1])
                return {"+": a + b, "-": a - b, "*": a * b, "&": a & b, "|": a | b, "^": a ^ b}[op]
            if op in ("/", "%"):
                a, b = self.int(e0["c"][0]), self.int(e0["c"][1])
                if b == 0:
                    raise Undefined("`%s` divides by zero" % facts.expr_str(e0))
                q = abs(a) // abs(b) * (1 if (a >= 0) == (b > 0) else -1)        # C++ truncates towards zero
                return q if op == "/" else a - q * b
            if op in ("<<", ">>"):
                a, b = self.int(e0["c"][0]), self.int(e0["c"][1])
                w = (facts.ty(self.f, e0) or {}).get("w") or 32
                if b < 0 or b >= w:
                    raise Undefined("`%s` shifts a %d-bit value by %d" % (facts.expr_str(e0), w, b))
                r = (a << b) if op == "<<" else (a >> b)
                return r & ((1 << w) - 1) if a >= 0 else r
        if k == "ConditionalOperator":
            return self.int(e0["c"][1]) if self.int(e0["c"][0]) else self.int(e0["c"][2])
        if k == "UnaryOperator" and e0.get("op") == "!":
            return 0 if self.int(e0["c"][0]) else 1
        if k == "UnaryOperator" and e0.get("op") in ("++", "--") and strip(e0["c"][0]).get("var") in self.ints:
            v = strip(e0["c"][0])["var"]
            old = self.ints[v]
            self.ints[v] = old + (1 if e0["op"] == "++" else -1)
            return old if e0.get("postfix") else self.ints[v]
        raise Unsupported("expression `%s`" % facts.expr_str(e0)[:80])

    def cell_r(self, e):
        """index of the byte an rvalue reads, or None"""
        e0 = strip(e)
        return self.cell(e0)

    # -- statements --------------------------------------------------------------
    def stmt(self, s):
        if s is None:
            return
        self.tick()
        k = s["k"]
        if k == "CompoundStmt":
            for x in s.get("c", []):
                self.stmt(x)
        elif k == "NullStmt":
            pass
        elif k == "DeclStmt":
            for d in s.get("c", []):
                if d["k"] != "VarDecl":
                    continue
                t = facts.tyi(self.f, d.get("t")) or {}
                if t.get("k") == "rec" and t.get("name") in self.local_cont and self.cont is None:
                    init = d["c"][0] if d.get("c") else None
                    if init is None or (init["k"] == "CXXConstructExpr" and all(c_["k"] == "CXXDefaultArgExpr" for c_ in init.get("c", []))):
                        self.cont, self.n = d["var"], self.local_cont[t["name"]]
                        self.buf = [("const", 0)] * self.n
                        continue
                if not d.get("c"):
                    if t.get("k") == "ptr":
                        self.its[d["var"]] = None
                    continue
                i = self.it(d["c"][0])
                if i is not None:
                    self.its[d["var"]] = i
                elif t.get("k") in ("int", "bool"):
                    self.ints[d["var"]] = self.int(d["c"][0])
                else:
                    raise Unsupported("local `%s`" % d.get("name"))
        elif k == "IfStmt":
            real = [x for x in s["c"] if x is not None]
            if self.int(real[0]):
                self.stmt(real[1])
            elif len(real) > 2:
                self.stmt(real[2])
        elif k == "WhileStmt":
            real = [x for x in s["c"] if x is not None]
            try:
                while self.int(real[0]):
                    self.tick()
                    self.stmt(real[1])
            except _Brk:
                pass
        elif k == "ForStmt":
            init, cnd, inc, body = (s["c"] + [None] * 5)[0], None, None, None
            c = s["c"]
            # clang order: init, condvar, cond, inc, body
            init, cnd, inc, body = c[0], c[2], c[3], c[4]
            self.stmt(init)
            try:
                while cnd is None or self.int(cnd):
                    self.tick()
                    self.stmt(body)
                    if inc is not None:
                        self.expr_stmt(inc)
            except _Brk:
                pass
        elif k == "ReturnStmt":
            if s.get("c") and (facts.ty(self.f, s["c"][0]) or {}).get("k") in ("int", "bool", "enum"):
                raise _Ret(self.int(s["c"][0]))
            raise _Ret(None)
        elif k == "CXXThrowExpr" or (k == "ExprWithCleanups" and s["c"][0]["k"] == "CXXThrowExpr"):
            raise _Ret(("throw",))
        elif k == "BreakStmt":
            raise _Brk()
        else:
            self.expr_stmt(s)

    def expr_stmt(self, s):
        e = strip(s, casts=False)
        while e["k"] in ("ParenExpr", "ExprWithCleanups"):
            e = e["c"][0]
        k = e["k"]
        if k == "BinaryOperator" and e.get("op") == ",":
            self.expr_stmt(e["c"][0])
            self.expr_stmt(e["c"][1])
            return
        if k == "UnaryOperator" and e.get("op") in ("++", "--"):
            tgt = strip(e["c"][0], casts=False)
            while tgt["k"] == "ParenExpr":
                tgt = tgt["c"][0]
            if tgt["k"] == "DeclRefExpr" and tgt.get("var") in self.its:
                self.its[tgt["var"]] += 1 if e["op"] == "++" else -1
                return
            if tgt["k"] == "DeclRefExpr" and tgt.get("var") in self.ints:
                self.ints[tgt["var"]] += 1 if e["op"] == "++" else -1
                return
            i = self.cell(tgt)
            if i is not None:
                self.bump(i, e["op"] == "++")
                return
        if k == "CompoundAssignOperator" and e.get("op") in ("+=", "-="):
            tgt = strip(e["c"][0], casts=False)
            d = self.int(e["c"][1])
            if tgt["k"] == "DeclRefExpr" and tgt.get("var") in self.its:
                self.its[tgt["var"]] += d if e["op"] == "+=" else -d
                return
            if tgt["k"] == "DeclRefExpr" and tgt.get("var") in self.ints:
                self.ints[tgt["var"]] += d if e["op"] == "+=" else -d
                return
            i = self.cell(tgt)
            if i is not None and d == 1:
                self.bump(i, e["op"] == "+=")
                return
        if k == "BinaryOperator" and e.get("op") == "=":
            tgt = strip(e["c"][0], casts=False)
            if tgt["k"] == "DeclRefExpr" and tgt.get("var") in self.its:
                self.its[tgt["var"]] = self.it(e["c"][1])
                return
            if tgt["k"] == "DeclRefExpr" and tgt.get("var") in self.ints:
                self.ints[tgt["var"]] = self.int(e["c"][1])
                return
            i = self.cell(tgt)
            if i is not None:
                v = facts.cval(e["c"][1])
                if v is None:
                    v = self.int(e["c"][1])
                self.buf[i] = ("const", int(v) & 0xff)
                return
        if k == "CallExpr" and e.get("cname") in ("fill", "fill_n", "memset") and len(e["c"]) == 4:
            # std::fill(first, last, v) / std::fill_n(first, n, v) / memset(first, v, n) over the container's bytes
            a = e["c"][1:]
            first = self.it(self.unwrap_iter(a[0]))
            if first is not None:
                if e["cname"] == "fill":
                    last = self.it(self.unwrap_iter(a[1]))
                    v = self.int(a[2])
                elif e["cname"] == "fill_n":
                    last = first + self.int(a[1])
                    v = self.int(a[2])
                else:
                    v = self.int(a[1])
                    last = first + self.int(a[2])
                if last is not None:
                    for i in range(first, last):
                        self.buf[self.check(i, e)] = ("const", int(v) & 0xff)
                    return
        raise Unsupported("statement `%s`" % facts.expr_str(e)[:80])

    def unwrap_iter(self, e):
        e0 = facts.strip_all(e)
        while e0["k"] in ("CXXConstructExpr", "MaterializeTemporaryExpr", "CXXBindTemporaryExpr") and len(e0.get("c", [])) == 1:
            e0 = facts.strip_all(e0["c"][0])
        return e0

    def bump(self, i, up):
        b = self.buf[i]
        wrap_at = 0xff if up else 0
        if b[0] == "const":
            self.buf[i] = ("const", (b[1] + (1 if up else -1)) & 0xff)
        elif b[0] == "orig" and self.c0 == wrap_at and b[2] == "NE":
            self.buf[i] = ("inc" if up else "dec", b)
        elif b[0] == "orig" and self.c0 == wrap_at and b[2] == "EQ":
            self.buf[i] = ("const", 0 if up else 0xff)
        elif b[0] == "orig" and self.c0 == wrap_at and b[2] == "ANY":
            v = self.choose()
            self.buf[i] = ("orig", b[1], "EQ" if v else "NE")
            self.bump(i, up)
        else:
            self.buf[i] = ("inc" if up else "dec", b)


def carry_check(f, cont_var, n, up):
    """Check a successor (up) / predecessor function over an n-byte big-endian
    container.  Returns (None, paths) if on every abstract input the function
    turns the trailing run of C0 bytes into the wrapped value, bumps the byte
    before it, leaves the others alone and returns true exactly when every byte
    was C0; else (message, paths)."""
    c0 = 0xff if up else 0
    wrapped = 0 if up else 0xff
    paths = 0
    for k in range(n + 1):
        cls = ["ANY"] * n
        for i in range(n - k, n):
            cls[i] = "EQ"
        if k < n:
            cls[n - k - 1] = "NE"
        w = Walk(f, cont_var, n, c0, cls)
        outs = w.outcomes()
        paths += len(outs)
        what = ("the last %d byte(s) are 0x%02x and the one before is not" % (k, c0)) if 0 < k < n else \
               ("all %d bytes are 0x%02x" % (n, c0) if k == n else "the last byte is not 0x%02x" % c0)
        for o in outs:
            if o.oob is not None:
                return "when %s the walk dereferences position %d of a %d-byte address" % (what, o.oob[0], n), paths
            for i in range(n):
                b = o.buf[i]
                if i >= n - k:
                    want = ("const", wrapped)
                elif i == n - k - 1:
                    want = ("inc" if up else "dec", ("orig", i, "NE"))
                else:
                    want = None
                if want is None:
                    if b[0] != "orig":
                        return "when %s byte %d (not part of the carry chain) is modified: %s" % (what, i, b), paths
                elif b != want:
                    return "when %s byte %d ends as %s, expected %s" % (what, i, describe(b), describe(want)), paths
            want_ret = 1 if k == n else 0
            if (1 if o.ret else 0) != want_ret:
                return "when %s the function returns %s; the iterator's end detection needs %s (true exactly on wrap-around)" % (
                    what, bool(o.ret), bool(want_ret)), paths
    return None, paths


def describe(b):
    if b[0] == "const":
        return "0x%02x" % b[1]
    if b[0] == "orig":
        return "unchanged"
    if b[0] in ("inc", "dec"):
        return "old value %s 1" % ("+" if b[0] == "inc" else "-")
    return str(b)


def prefix_mask_check(f, param_var, type_sizes, max_prefix):
    """f builds, in a zero-initialised local address, the mask of a prefix length given by an integer parameter.
    Runs the walk for every prefix length 0..max_prefix; returns (None, n) when every result is `p` one bits
    followed by zeros, else (message, n)."""
    n = 0
    for p in range(max_prefix + 1):
        w = Walk(f, None, 0, 0xff, [], ints={param_var: p}, local_cont=type_sizes)
        try:
            outs = w.outcomes()
        except Undefined as e:
            return "prefix length %d: undefined behaviour: %s" % (p, e), n
        for o in outs:
            n += 1
            if o.oob is not None:
                return "prefix length %d: the walk stores at position %d of a %d-byte address" % (p, o.oob[0], len(o.buf)), n
            if o.ret == ("throw",):
                return "prefix length %d is rejected" % p, n
            size = len(o.buf)
            if not size:
                raise Unsupported("no zero-initialised local address found")
            got = []
            for b in o.buf:
                if b[0] != "const":
                    raise Unsupported("byte %r" % (b,))
                got.append(b[1])
            want = [0] * size
            for i in range(size):
                bits = min(8, max(0, p - 8 * i))
                want[i] = (0xff << (8 - bits)) & 0xff
            if got != want:
                return "prefix length %d gives the mask %s, expected %s" % (
                    p, ":".join("%02x" % x for x in got), ":".join("%02x" % x for x in want)), n
    return None, n
