"""Fact extraction driver and database.

Runs /verif/.build/tinsfacts over every library translation unit of the
*current working tree* of the repository (16 batches in parallel), merges the
per-batch JSON into one database and offers navigation helpers to the rule
engines.  The cache key is a content hash of every analysed file, the flags and
the extractor binary, so an edited file is always re-extracted.
"""
import weakref
import glob
import hashlib
import json
import os
import pickle
import subprocess
import sys
import time
from concurrent.futures import ThreadPoolExecutor

VERIF = os.path.dirname(os.path.dirname(os.path.abspath(__file__)))
REPO = os.environ.get("VERIF_REPO", "/repo")
CACHE = os.path.join(VERIF, ".cache")
BUILD = os.path.join(VERIF, ".build")
TOOL = os.path.join(BUILD, "tinsfacts")
TOOL_SRC = os.path.join(VERIF, "tools", "tinsfacts.cc")
RESOURCE_DIR = "/usr/lib/llvm-14/lib/clang/14.0.6"

CONFIG_DEFINES = {
    # the pinned configuration of the real build (include/tins/config.h)
    "cxx11": ["TINS_HAVE_CXX11", "TINS_HAVE_DOT11", "TINS_HAVE_WPA2_DECRYPTION",
              "TINS_HAVE_TCPIP", "TINS_HAVE_ACK_TRACKER", "TINS_HAVE_TCP_STREAM_CUSTOM_DATA",
              "TINS_HAVE_GCC_BUILTIN_SWAP", "TINS_HAVE_WPA2_CALLBACKS", "TINS_HAVE_PCAP"],
}
CONFIG_DEFINES["cxx03"] = [d for d in CONFIG_DEFINES["cxx11"]
                           if d not in ("TINS_HAVE_CXX11", "TINS_HAVE_TCPIP", "TINS_HAVE_ACK_TRACKER",
                                        "TINS_HAVE_TCP_STREAM_CUSTOM_DATA", "TINS_HAVE_WPA2_CALLBACKS")]


class AnalysisBroken(Exception):
    """The analysis itself could not be carried out (exit code 2)."""


def sha(path):
    h = hashlib.sha256()
    with open(path, "rb") as f:
        h.update(f.read())
    return h.hexdigest()


def ensure_tool():
    os.makedirs(BUILD, exist_ok=True)
    stamp = os.path.join(BUILD, "tinsfacts.srcsha")
    want = sha(TOOL_SRC)
    if os.path.exists(TOOL) and os.path.exists(stamp) and open(stamp).read() == want:
        return
    cxxflags = subprocess.check_output(["llvm-config-14", "--cxxflags"]).decode().split()
    tmp = TOOL + ".tmp%d" % os.getpid()
    cmd = ["clang++"] + cxxflags + ["-fno-rtti", "-O1", TOOL_SRC, "-o", tmp,
                                    "/usr/lib/llvm-14/lib/libclang-cpp.so.14",
                                    "/usr/lib/llvm-14/lib/libLLVM-14.so"]
    r = subprocess.run(cmd, stdout=subprocess.PIPE, stderr=subprocess.STDOUT)
    if r.returncode != 0:
        raise AnalysisBroken("cannot build tinsfacts:\n" + r.stdout.decode()[-3000:])
    os.replace(tmp, TOOL)
    with open(stamp, "w") as f:
        f.write(want)


def repo_sources(repo):
    srcs = sorted(glob.glob(os.path.join(repo, "src", "**", "*.cpp"), recursive=True))
    return srcs


def repo_headers(repo):
    return sorted(glob.glob(os.path.join(repo, "include", "**", "*.h"), recursive=True))


def shadow_config(repo, config, key):
    """A shadow include dir holding tins/config.h for `config`.

    For the pinned configuration the repo's own generated config.h is used when
    it exists; otherwise (fresh checkout, or the C++03 re-analysis) the file is
    synthesised from the option list above.
    """
    real = os.path.join(repo, "include", "tins", "config.h")
    if config == "cxx11" and os.path.exists(real):
        return None
    d = os.path.join(CACHE, "shadow-" + key, "tins")
    os.makedirs(d, exist_ok=True)
    lines = ["#ifndef TINS_CONFIG_H", "#define TINS_CONFIG_H"]
    for dname in CONFIG_DEFINES[config]:
        lines.append("#define " + dname)
    lines += ["#define TINS_VERSION_MAJOR 4", "#define TINS_VERSION_MINOR 6",
              "#define TINS_VERSION_PATCH 0", "#endif"]
    p = os.path.join(d, "config.h")
    tmp = p + ".tmp%d" % os.getpid()
    with open(tmp, "w") as f:
        f.write("\n".join(lines) + "\n")
    os.replace(tmp, p)
    return os.path.dirname(d)


def flags_for(repo, config, shadow):
    fl = ["-std=c++11" if config == "cxx11" else "-std=c++03"]
    if shadow:
        fl += ["-I" + shadow]
    fl += ["-I" + os.path.join(repo, "include"),
           "-DHAVE_PCAP_IMMEDIATE_MODE=1", "-DHAVE_PCAP_TIMESTAMP_PRECISION=1", "-Dtins_EXPORTS",
           "-UNDEBUG", "-Wno-everything", "-resource-dir", RESOURCE_DIR]
    return fl


CANON = "canon-4"      # version of canonicalise(); part of the cache key


def content_key(repo, config, extra):
    h = hashlib.sha256()
    h.update(CANON.encode())
    h.update(sha(TOOL).encode())
    h.update(config.encode())
    for p in repo_sources(repo) + repo_headers(repo) + list(extra):
        h.update(p.encode())
        h.update(sha(p).encode())
    return h.hexdigest()[:24]


def _run_batch(args):
    srcs, out, repo, flags = args
    cmd = [TOOL, "-o", out, "-root", repo] + srcs + ["--"] + flags
    r = subprocess.run(cmd, stdout=subprocess.PIPE, stderr=subprocess.STDOUT)
    return r.returncode, r.stdout.decode(errors="replace")


def extract(repo=None, config="cxx11", extra_tus=(), jobs=16, verbose=False):
    """Return a DB for the current tree of `repo` (robust against concurrent runs sharing the cache)."""
    last = None
    for attempt in range(3):
        try:
            return _extract(repo, config, extra_tus, jobs, verbose)
        except (FileNotFoundError, EOFError, pickle.UnpicklingError) as e:
            last = e
            time.sleep(0.5 + attempt)
    raise AnalysisBroken("fact cache raced three times: %s" % last)


def _extract(repo=None, config="cxx11", extra_tus=(), jobs=16, verbose=False):
    repo = repo or REPO
    ensure_tool()
    os.makedirs(CACHE, exist_ok=True)
    extra_tus = list(extra_tus)
    key = content_key(repo, config, extra_tus)
    cdir = os.path.join(CACHE, key)
    pkl = os.path.join(cdir, "merged.pkl")
    if os.path.exists(pkl):
        try:
            with open(pkl, "rb") as f:
                db = pickle.load(f)
            db.from_cache = True
            return db
        except Exception:
            pass
    t0 = time.time()
    os.makedirs(cdir, exist_ok=True)
    shadow = shadow_config(repo, config, key)
    flags = flags_for(repo, config, shadow)
    srcs = repo_sources(repo) + extra_tus
    if len(srcs) < 60:
        raise AnalysisBroken("only %d translation units found under %s/src" % (len(srcs), repo))
    # balance batches by file size
    srcs_sz = sorted(srcs, key=lambda p: -os.path.getsize(p))
    batches = [[] for _ in range(jobs)]
    loads = [0] * jobs
    for p in srcs_sz:
        i = loads.index(min(loads))
        batches[i].append(p)
        loads[i] += os.path.getsize(p) + 40000
    work = []
    for i, b in enumerate(batches):
        if b:
            work.append((b, os.path.join(cdir, "batch%02d.json.tmp%d_%d" % (i, os.getpid(), int(time.time() * 1000) % 100000)), repo, flags))
    with ThreadPoolExecutor(max_workers=jobs) as ex:
        results = list(ex.map(_run_batch, work))
    errs = []
    for (rc, out), w in zip(results, work):
        if rc != 0:
            errs.append("tinsfacts failed on %s:\n%s" % (" ".join(w[0]), out[-4000:]))
    if errs:
        for w in work:
            if os.path.exists(w[1]):
                os.unlink(w[1])
        raise AnalysisBroken("\n".join(errs))
    db = DB(repo, config, key, srcs)
    for w in work:
        with open(w[1]) as f:
            db.merge(json.load(f))
        os.unlink(w[1])
    db.finish()
    db.extract_s = time.time() - t0
    tmp = pkl + ".tmp%d" % os.getpid()
    with open(tmp, "wb") as f:
        pickle.dump(db, f, protocol=pickle.HIGHEST_PROTOCOL)
    os.replace(tmp, pkl)
    _prune_cache(keep=key)
    db.from_cache = False
    return db


def _prune_cache(keep, maxn=24):
    try:
        now = time.time()
        ents = [os.path.join(CACHE, e) for e in os.listdir(CACHE)]
        # never touch what another run may still be writing: only entries idle for 20 minutes are candidates
        ents = [e for e in ents if os.path.isdir(e) and os.path.basename(e) != keep
                and not os.path.basename(e).startswith("shadow-") and now - os.path.getmtime(e) > 1200]
        ents.sort(key=lambda e: os.path.getmtime(e))
        import shutil
        for e in ents[:-maxn] if len(ents) > maxn else []:
            shutil.rmtree(e, ignore_errors=True)
    except OSError:
        pass


DBS = weakref.WeakSet()


def db_of(f):
    """the loaded DB that owns function record f (None for a free-standing record)"""
    for db in list(DBS):
        if db.functions.get(f.get("id")) is f:
            return db
    return None


class DB(object):
    def __setstate__(self, d):
        self.__dict__.update(d)
        DBS.add(self)

    def __init__(self, repo, config, key, srcs):
        DBS.add(self)
        self.repo = repo
        self.config = config
        self.key = key
        self.sources = [os.path.relpath(s, repo) for s in srcs]
        self.functions = {}
        self.records = {}
        self.enums = {}
        self.globals = {}
        self.errors = []
        self.from_cache = False
        self.extract_s = 0.0

    # -- merge ---------------------------------------------------------------
    def merge(self, batch):
        types = batch["types"]
        for t in types:
            if t is None:
                continue
        # resolve 'to' links into direct references
        for t in types:
            if isinstance(t, dict) and "to" in t and isinstance(t["to"], int):
                t["to"] = types[t["to"]] if t["to"] >= 0 else None
        for f in batch["functions"]:
            if f["id"] in self.functions:
                continue
            f["_types"] = types
            canonicalise(f)
            self.functions[f["id"]] = f
        for r in batch["records"]:
            if r["name"] in self.records:
                continue
            r["_types"] = types
            self.records[r["name"]] = r
        for e in batch["enums"]:
            self.enums.setdefault(e["name"], e)
        for g in batch["globals"]:
            g["_types"] = types
            old = self.globals.get(g["id"])
            if old is None or (g.get("def") and not old.get("def")):
                if old is not None:
                    # keep knowledge from the in-class declaration (initialiser)
                    for k in ("has_init", "const_init"):
                        if old.get(k) and not g.get(k):
                            g[k] = old[k]
                self.globals[g["id"]] = g
            elif old is not None:
                for k in ("has_init", "const_init"):
                    if g.get(k) and not old.get(k):
                        old[k] = g[k]
        self.errors += batch.get("errors", [])

    def finish(self):
        # class hierarchy
        self.derived = {}
        for r in self.records.values():
            for b in r["bases"]:
                self.derived.setdefault(b, []).append(r["name"])
        # overriders: method id -> list of overriding method ids (transitively)
        self.overriders = {}
        for r in self.records.values():
            for m in r["methods"]:
                for o in m.get("overrides", []):
                    self.overriders.setdefault(o, []).append(m["id"])
        self.by_qual = {}
        for f in self.functions.values():
            self.by_qual.setdefault(f["qual"], []).append(f)

    # -- navigation ------------------------------------------------------------
    def all_bases(self, name):
        out, todo = [], [name]
        while todo:
            n = todo.pop()
            r = self.records.get(n)
            if not r:
                continue
            for b in r["bases"]:
                if b not in out:
                    out.append(b)
                    todo.append(b)
        return out

    def is_derived_from(self, name, base):
        return name == base or base in self.all_bases(name)

    def all_derived(self, name):
        out, todo = [], [name]
        while todo:
            n = todo.pop()
            for d in self.derived.get(n, []):
                if d not in out:
                    out.append(d)
                    todo.append(d)
        return out

    def all_overriders(self, mid):
        out, todo = [], [mid]
        while todo:
            n = todo.pop()
            for d in self.overriders.get(n, []):
                if d not in out:
                    out.append(d)
                    todo.append(d)
        return out

    def fn(self, fid):
        return self.functions.get(fid)

    def fns_named(self, qual):
        return self.by_qual.get(qual, [])

    def methods_of(self, rec):
        return [f for f in self.functions.values() if f.get("rec") == rec]

    def find_method(self, rec, name, inherited=True):
        """Final overrider(s) of `name` visible in `rec` (list of function ids as
        declared in the nearest class that declares it)."""
        seen = [rec] + (self.all_bases(rec) if inherited else [])
        for rn in seen:
            r = self.records.get(rn)
            if not r:
                continue
            ms = [m for m in r["methods"] if m["name"] == name]
            if ms:
                return ms
        return []


# ---------------------------------------------------------------------------
# node helpers (functions are plain dict trees; these add per-function indices)
# ---------------------------------------------------------------------------

def index_fn(f):
    """Build id->node and parent maps lazily; cached on the function dict."""
    if "_idx" in f:
        return f["_idx"], f["_parent"]
    idx, parent = {}, {}

    def walk(n, p):
        if not isinstance(n, dict):
            return
        idx[n["id"]] = n
        if p is not None:
            parent[n["id"]] = p
        for c in n.get("c", ()):  # children
            walk(c, n)
    if f.get("body"):
        walk(f["body"], None)
    for i in f.get("inits", ()):  # ctor initialisers
        if i.get("e"):
            walk(i["e"], None)
    f["_idx"], f["_parent"] = idx, parent
    return idx, parent


def walk(n):
    """Pre-order iteration over a node tree."""
    stack = [n]
    while stack:
        x = stack.pop()
        if not isinstance(x, dict):
            continue
        yield x
        cs = x.get("c")
        if cs:
            stack.extend(reversed(cs))


def fn_nodes(f):
    for i in f.get("inits", ()):  # ctor initialisers first (execution order)
        if i.get("e"):
            for n in walk(i["e"]):
                yield n
    if f.get("body"):
        for n in walk(f["body"]):
            yield n


def ty(f, n):
    t = n.get("t")
    if t is None or t < 0:
        return None
    return f["_types"][t]


def tyi(f, i):
    if i is None or i < 0:
        return None
    return f["_types"][i]


TRANSPARENT = ("ImplicitCastExpr", "ParenExpr", "ExprWithCleanups", "MaterializeTemporaryExpr",
               "CXXBindTemporaryExpr", "ConstantExpr", "CXXFunctionalCastExpr", "FullExpr")


def strip(n, casts=True):
    """Skip parentheses, implicit casts and temporaries."""
    while isinstance(n, dict):
        k = n["k"]
        if k in ("ParenExpr", "ExprWithCleanups", "MaterializeTemporaryExpr", "CXXBindTemporaryExpr",
                 "ConstantExpr"):
            n = n["c"][0]
        elif k == "ImplicitCastExpr" and casts:
            n = n["c"][0]
        else:
            break
    return n


def strip_all(n):
    """Like strip but also through explicit casts of any form."""
    while isinstance(n, dict):
        k = n["k"]
        if k in ("ParenExpr", "ExprWithCleanups", "MaterializeTemporaryExpr", "CXXBindTemporaryExpr",
                 "ConstantExpr", "ImplicitCastExpr", "CStyleCastExpr", "CXXStaticCastExpr",
                 "CXXFunctionalCastExpr", "CXXReinterpretCastExpr", "CXXConstCastExpr"):
            if not n.get("c"):
                break
            n = n["c"][0]
        else:
            break
    return n


def loc(f, n=None):
    if n is None:
        return "%s:%d" % (f["file"], f["line"])
    return "%s:%d" % (f["file"], n.get("l", f["line"]))


def src_text(db, f, n):
    """Best-effort one-line source text of the line of node n (for reports only)."""
    try:
        with open(os.path.join(db.repo, f["file"])) as fh:
            lines = fh.read().split("\n")
        return lines[n.get("l", f["line"]) - 1].strip()
    except Exception:
        return ""


def expr_str(n, depth=0):
    """A compact, normalised rendering of an expression tree, used to compare
    two expressions *of the current tree* with each other (never with stored
    text) and to print reports."""
    if not isinstance(n, dict) or "k" not in n:
        return "?"
    n = strip(n)
    k = n["k"]
    c = n.get("c", [])
    if k == "DeclRefExpr":
        return n.get("name", "?")
    if k == "MemberExpr":
        base = expr_str(c[0]) if c else "this"
        if base == "this":
            return n["member"]
        return base + ("->" if n.get("arrow") else ".") + n["member"]
    if k == "CXXThisExpr":
        return "this"
    if k in ("IntegerLiteral", "CXXBoolLiteralExpr", "CharacterLiteral"):
        return str(n.get("v"))
    if k in ("BinaryOperator", "CompoundAssignOperator"):
        return "(%s %s %s)" % (expr_str(c[0]), n["op"], expr_str(c[1]))
    if k == "UnaryOperator":
        return ("(%s%s)" % (expr_str(c[0]), n["op"])) if n.get("postfix") else ("(%s%s)" % (n["op"], expr_str(c[0])))
    if k == "CXXMemberCallExpr":
        return "%s(%s)" % (expr_str(c[0]), ", ".join(expr_str(x) for x in c[1:]))
    if k == "CXXOperatorCallExpr":
        if len(c) == 3:
            return "(%s %s %s)" % (expr_str(c[1]), n.get("op"), expr_str(c[2]))
        if len(c) == 2:
            return "(%s%s)" % (n.get("op"), expr_str(c[1]))
        return "op%s(%s)" % (n.get("op"), ", ".join(expr_str(x) for x in c[1:]))
    if k == "CallExpr":
        return "%s(%s)" % (n.get("cname", expr_str(c[0]) if c else "?"), ", ".join(expr_str(x) for x in c[1:]))
    if k in ("CXXConstructExpr", "CXXTemporaryObjectExpr"):
        if len(c) == 1 and n.get("elidable"):
            return expr_str(c[0])
        return "%s{%s}" % (n.get("crec", "?"), ", ".join(expr_str(x) for x in c))
    if k in ("CStyleCastExpr", "CXXStaticCastExpr", "CXXFunctionalCastExpr", "CXXReinterpretCastExpr",
             "CXXConstCastExpr"):
        return "cast(%s)" % expr_str(c[0])
    if k == "UnaryExprOrTypeTraitExpr":
        return "sizeof=%s" % n.get("v")
    if k == "ArraySubscriptExpr":
        return "%s[%s]" % (expr_str(c[0]), expr_str(c[1]))
    if k == "ConditionalOperator":
        return "(%s ? %s : %s)" % (expr_str(c[0]), expr_str(c[1]), expr_str(c[2]))
    if k == "CXXDefaultArgExpr":
        return expr_str(c[0]) if c else "default"
    if k == "CXXNewExpr":
        return "new(%s)" % ", ".join(expr_str(x) for x in c)
    if k == "StringLiteral":
        return '"%s"' % n.get("str", "")
    return k + "(" + ", ".join(expr_str(x) for x in c) + ")"


_MIRROR = {"<": ">", ">": "<", "<=": ">=", ">=": "<=", "==": "==", "!=": "!="}
_INVERT = {"<": ">=", ">": "<=", "<=": ">", ">=": "<", "==": "!=", "!=": "=="}


def canonicalise(f):
    """Rewrite, in place, three spellings into one so that shape rules do not depend on them (same value on every input,
    built-in operators on integers / pointers / enums only):
        !(a OP b)            ->  a INV(OP) b
        CONST OP x           ->  x MIRROR(OP) CONST          (comparisons)
        x = x + e, x = e + x ->  x += e ;   x = x - e  ->  x -= e      (x free of calls)
    The outer node keeps its id (CFG conditions and elements stay attached)."""
    types = f.get("_types")

    def tyk(n):
        t = n.get("t")
        if isinstance(t, int) and types and 0 <= t < len(types):
            t = types[t]
        return (t or {}).get("k") if isinstance(t, dict) else None

    def scalar(n):
        return tyk(strip(n)) in ("int", "bool", "enum", "ptr") or tyk(n) in ("int", "bool", "enum", "ptr")

    def pure(n):
        return not any(x.get("k") in ("CallExpr", "CXXMemberCallExpr", "CXXOperatorCallExpr", "UnaryOperator") and
                       (x.get("k") != "UnaryOperator" or x.get("op") in ("++", "--")) for x in walk(n))

    def rec(n):
        if not isinstance(n, dict):
            return
        for c in n.get("c", []) or []:
            rec(c)
        k = n.get("k")
        if k == "UnaryOperator" and n.get("op") == "!" and n.get("c"):
            inner = n["c"][0]
            while isinstance(inner, dict) and inner.get("k") in ("ParenExpr", "ImplicitCastExpr") and inner.get("c"):
                inner = inner["c"][0]
            if isinstance(inner, dict) and inner.get("k") == "BinaryOperator" and inner.get("op") in _INVERT and \
                    scalar(inner["c"][0]) and scalar(inner["c"][1]):
                keep = dict((a, n[a]) for a in ("id", "l", "t") if a in n)
                n.clear()
                n.update(keep)
                n.update({"k": "BinaryOperator", "op": _INVERT[inner["op"]], "c": inner["c"]})
                k = "BinaryOperator"
        if k == "BinaryOperator" and n.get("op") in _MIRROR and len(n.get("c", [])) == 2:
            l, r = n["c"]
            if cval(l) is not None and cval(r) is None and scalar(r):
                n["c"] = [r, l]
                n["op"] = _MIRROR[n["op"]]
        if k == "BinaryOperator" and n.get("op") == "=" and len(n.get("c", [])) == 2:
            lhs, rhs = n["c"]
            r0 = rhs
            while isinstance(r0, dict) and r0.get("k") in ("ParenExpr", "ImplicitCastExpr") and r0.get("c"):
                r0 = r0["c"][0]
            if isinstance(r0, dict) and r0.get("k") == "BinaryOperator" and r0.get("op") in ("+", "-") and scalar(lhs) and pure(lhs):
                a, b = r0["c"]
                lt = expr_str(lhs)
                if expr_str(a) == lt:
                    n["k"], n["op"], n["c"] = "CompoundAssignOperator", r0["op"] + "=", [lhs, b]
                elif r0["op"] == "+" and expr_str(b) == lt:
                    n["k"], n["op"], n["c"] = "CompoundAssignOperator", "+=", [lhs, a]
        if n.get("k") == "CompoundAssignOperator" and n.get("op") in ("+=", "-=") and len(n.get("c", [])) == 2 and \
                cval(n["c"][1]) == 1 and scalar(n["c"][0]) and pure(n["c"][0]):
            # x += 1 is ++x (same value, same lvalue)
            n["k"], n["op"], n["c"] = "UnaryOperator", ("++" if n["op"] == "+=" else "--"), [n["c"][0]]
            n.pop("postfix", None)
            k = "UnaryOperator"
        # overloaded forms on class types (iterators, strings): !(a != b) -> a == b ; s = s + e -> s += e
        if k == "UnaryOperator" and n.get("op") == "!" and n.get("c"):
            inner = n["c"][0]
            while isinstance(inner, dict) and inner.get("k") in ("ParenExpr", "ImplicitCastExpr", "ExprWithCleanups", "MaterializeTemporaryExpr") and inner.get("c"):
                inner = inner["c"][0]
            def _is_std_iter(x):
                t_ = x.get("t")
                t_ = types[t_] if isinstance(t_, int) and types and 0 <= t_ < len(types) else (t_ if isinstance(t_, dict) else {})
                while isinstance(t_, dict) and t_.get("k") == "ref" and t_.get("to"):
                    t_ = t_["to"]
                nm_ = (t_ or {}).get("name", "") or (t_ or {}).get("s", "")
                return "iterator" in nm_ and ("std::" in nm_ or "__gnu_cxx" in nm_)
            if isinstance(inner, dict) and inner.get("k") == "CXXOperatorCallExpr" and inner.get("op") in ("==", "!=") and len(inner.get("c", [])) == 3 \
                    and (_is_std_iter(strip(inner["c"][1])) or _is_std_iter(strip(inner["c"][2]))):
                flip = "!=" if inner["op"] == "==" else "=="
                keep = dict((a, n[a]) for a in ("id", "l", "t") if a in n)
                n.clear()
                n.update(keep)
                n.update({"k": "CXXOperatorCallExpr", "op": flip, "cname": "operator" + flip, "synth": True, "c": inner["c"]})
        if k == "CXXOperatorCallExpr" and n.get("cname") == "operator=" and len(n.get("c", [])) == 3:
            lhs, rhs = n["c"][1], n["c"][2]
            r0 = rhs
            while isinstance(r0, dict) and r0.get("k") in ("ParenExpr", "ImplicitCastExpr", "ExprWithCleanups", "MaterializeTemporaryExpr", "CXXBindTemporaryExpr") and r0.get("c"):
                r0 = r0["c"][0]
            if isinstance(r0, dict) and r0.get("k") == "CXXOperatorCallExpr" and r0.get("cname") == "operator+" and len(r0.get("c", [])) == 3 \
                    and pure(lhs) and expr_str(r0["c"][1]) == expr_str(lhs) and "basic_string" in str((types[n["c"][1].get("t")] if isinstance(n["c"][1].get("t"), int) and types else {}).get("name", "")):
                n["cname"], n["op"], n["synth"] = "operator+=", "+=", True
                n["c"] = [n["c"][0], lhs, r0["c"][2]]
    if f.get("body"):
        rec(f["body"])
    for i in f.get("inits", []) or []:
        if i.get("e"):
            rec(i["e"])


def single_assign(f):
    """locals of f assigned exactly once, at their declaration (never re-assigned, incremented or address-taken) -> init node"""
    if "_single" in f:
        return f["_single"]
    decl, multi = {}, set()
    for n in fn_nodes(f):
        if n["k"] == "VarDecl" and n.get("c") and n.get("var"):
            decl[n["var"]] = n["c"][0]
        elif n["k"] in ("BinaryOperator", "CompoundAssignOperator") and n.get("op", "").endswith("=") and \
                n["op"] not in ("==", "!=", "<=", ">="):
            l = strip(n["c"][0])
            if l["k"] == "DeclRefExpr":
                multi.add(l.get("var"))
        elif n["k"] == "UnaryOperator" and n.get("op") in ("++", "--", "&"):
            l = strip(n["c"][0])
            if l["k"] == "DeclRefExpr":
                multi.add(l.get("var"))
        elif n["k"] == "CXXOperatorCallExpr" and n.get("cname") in ("operator=", "operator+=", "operator++", "operator--") and len(n.get("c", [])) > 1:
            l = strip(n["c"][1])
            if l["k"] == "DeclRefExpr":
                multi.add(l.get("var"))
    f["_single"] = dict((v, e) for v, e in decl.items() if v not in multi)
    return f["_single"]


def inline_locals(f, e, depth=3, all_types=False, kinds=("int", "bool", "enum", "ptr")):
    """copy of expression e in which every read of a single-assignment scalar local of f is replaced by that local's
    initialiser (transitively, up to `depth`): lets shape rules see through `const T x = ...;` without caring about it.
    The copy is for matching and printing only (node ids repeat)."""
    sa = single_assign(f)

    def rec(n, d):
        if not isinstance(n, dict):
            return n
        if n.get("k") == "DeclRefExpr" and n.get("var") in sa and d > 0 and not n.get("parm"):
            t = ty(f, n) or {}
            if all_types or t.get("k") in kinds:
                return rec(sa[n["var"]], d - 1)
        if "c" in n and n["c"]:
            m = dict(n)
            m["c"] = [rec(x, d) if x is not None else None for x in n["c"]]
            return m
        return n
    return rec(e, depth)


def extract_extra(db, name, text):
    """Analyse a synthetic translation unit (explicit template instantiations
    over the current tree's classes) and merge its entities into `db`."""
    h = hashlib.sha256((name + "\n" + text).encode()).hexdigest()[:16]
    cdir = os.path.join(CACHE, db.key)
    os.makedirs(cdir, exist_ok=True)
    src = os.path.join(cdir, "synth-%s-%s.cpp" % (name, h))
    out = os.path.join(cdir, "synth-%s-%s.json" % (name, h))
    if not os.path.exists(out):
        with open(src, "w") as f:
            f.write(text)
        shadow = shadow_config(db.repo, db.config, db.key)
        flags = flags_for(db.repo, db.config, shadow)
        tmp = out + ".tmp%d" % os.getpid()
        rc, log = _run_batch(([src], tmp, db.repo, flags))
        if rc != 0:
            if os.path.exists(tmp):
                os.unlink(tmp)
            raise AnalysisBroken("synthetic TU %s does not compile:\n%s" % (name, log[-3000:]))
        os.replace(tmp, out)
    with open(out) as f:
        batch = json.load(f)
    db.merge(batch)
    db.finish()
    return db


def cval(n):
    """Integer constant value of expression n as folded by clang (looking through
    parentheses / implicit casts), or None."""
    while isinstance(n, dict):
        if "v" in n:
            v = n["v"]
            return int(v) if isinstance(v, str) else v
        if n["k"] in TRANSPARENT or n["k"] in ("CStyleCastExpr", "CXXStaticCastExpr"):
            if not n.get("c"):
                return None
            n = n["c"][0]
        else:
            return None
    return None


def extract_fixture(name):
    """Analyse /verif/selftest/fixtures/src/<name>.cpp as a one-TU program rooted
    at the fixtures directory (positive controls for zero-count rules)."""
    ensure_tool()
    root = os.path.join(VERIF, "selftest", "fixtures")
    src = os.path.join(root, "src", name + ".cpp")
    key = hashlib.sha256((sha(TOOL) + sha(src)).encode()).hexdigest()[:20]
    out = os.path.join(CACHE, "fixture-%s-%s.json" % (name, key))
    os.makedirs(CACHE, exist_ok=True)
    if not os.path.exists(out):
        flags = ["-std=c++11", "-I" + os.path.join(REPO, "include"), "-Wno-everything", "-resource-dir", RESOURCE_DIR]
        tmp = out + ".tmp%d" % os.getpid()
        rc, log = _run_batch(([src], tmp, root, flags))
        if rc != 0:
            raise AnalysisBroken("fixture %s does not compile: %s" % (name, log[-2000:]))
        os.replace(tmp, out)
    db = DB(root, "fixture", key, [src])
    with open(out) as f:
        db.merge(json.load(f))
    db.finish()
    return db


def extract_standalone(db, name, text):
    """Analyse a synthetic translation unit with the current tree's flags into a database of its own (used to look at
    the record declarations of preprocessor arms the configured build does not compile)."""
    h = hashlib.sha256((name + "\n" + text).encode()).hexdigest()[:16]
    cdir = os.path.join(CACHE, db.key)
    os.makedirs(cdir, exist_ok=True)
    src = os.path.join(cdir, "alone-%s-%s.cpp" % (name, h))
    out = os.path.join(cdir, "alone-%s-%s.json" % (name, h))
    if not os.path.exists(out):
        with open(src, "w") as f:
            f.write(text)
        shadow = shadow_config(db.repo, db.config, db.key)
        flags = flags_for(db.repo, db.config, shadow)
        tmp = out + ".tmp%d_%d" % (os.getpid(), int(time.time() * 1000) % 100000)
        rc, log = _run_batch(([src], tmp, db.repo, flags))
        if rc != 0:
            if os.path.exists(tmp):
                os.unlink(tmp)
            raise AnalysisBroken("synthetic TU %s does not compile:\n%s" % (name, log[-3000:]))
        os.replace(tmp, out)
    d2 = DB(db.repo, db.config, db.key + "-" + name, [src])
    with open(out) as f:
        d2.merge(json.load(f))
    d2.finish()
    return d2


# ---------------------------------------------------------------------------------------------- effects behind helpers
def lifted_sites(db, f, pred, max_nodes=160, must=True):
    """Sites of f at which an effect described by pred happens - written in f itself, or inside a library helper that f
    calls and that performs it on every path from its entry to its normal exit (an extracted function is the same
    code).  pred(fn, node, txt) -> truthy, where txt(expr) renders an expression of fn in f's terms (for a helper: its
    parameters replaced by the text of the caller's arguments, `this->` dropped).  Returns [(site node in f, node, fn, txt)]
    as 3-tuples (site, node, fn); with must=False a helper's conditional sites count too (the caller asks "where", not
    "always").  The txt function of each hit is available as node-independent attribute via lifted_txt(db, f, site, fn)."""
    import re as _re
    from . import cfg as _cfg
    out = []

    def own(e):
        return expr_str(e).replace("this->", "")
    for n in fn_nodes(f):
        if pred(f, n, own):
            out.append((n, n, f))
    for c in fn_nodes(f):
        if c["k"] not in ("CallExpr", "CXXMemberCallExpr") or not c.get("callee") or c.get("ext"):
            continue
        h = db.fn(c["callee"])
        if h is None or h is f or not h.get("body") or not h.get("cfg") or not (h.get("file") or "").startswith(("src/", "include/tins")):
            continue
        hn = list(fn_nodes(h))
        if len(hn) > max_nodes:
            continue
        args = _cfg.args(c)
        sub = {}
        for p_, a_ in zip(h.get("params", ()), args):
            if p_.get("name"):
                sub[p_["name"]] = own(strip_all(a_))

        def txt(e, sub=sub):
            t = expr_str(e).replace("this->", "")
            for nm, rep_ in sub.items():
                t = _re.sub(r"(?<![\w.>])%s(?!\w)" % _re.escape(nm), lambda m_: rep_, t)
            return t
        gh = None
        for m in hn:
            if pred(h, m, txt):
                if gh is None:
                    gh = _cfg.FnCFG(h)
                pm = gh.pos(m)
                if pm is not None and (not must or gh.reaches_exit_avoiding((gh.entry, -1), [pm], normal_only=True) is None):
                    out.append((c, m, h))
    return out


# ---------------------------------------------------------------------------------------------- expression helpers
_HDR_NAMES = {}


def _named_in_headers(db, name):
    import re as _re
    if not name or not _re.match(r"^[A-Za-z_]\w*$", name):
        return True
    key = db.repo
    if key not in _HDR_NAMES:
        txt = []
        for root, _, files in os.walk(os.path.join(db.repo, "include")):
            for fn_ in files:
                try:
                    with open(os.path.join(root, fn_), errors="replace") as fh:
                        txt.append(fh.read())
                except OSError:
                    pass
        _HDR_NAMES[key] = set(_re.findall(r"[A-Za-z_]\w*", "\n".join(txt)))
    return name in _HDR_NAMES[key]


def expression_helper(db, callee):
    """the return expression of `callee` when it is a file-local expression helper: a free function defined in a source
    file, named in no public header, whose body is exactly `return EXPR;` with no assignment inside - else None"""
    h = db.fn(callee) if callee else None
    if h is None or h.get("rec") or not h.get("body") or not (h.get("file") or "").startswith("src/"):
        return None
    st = [x for x in h["body"].get("c", []) if x is not None]
    if len(st) != 1 or st[0]["k"] != "ReturnStmt" or not st[0].get("c"):
        return None
    if _named_in_headers(db, h.get("name")):
        return None
    n = 0
    for x in walk(st[0]):
        n += 1
        if x["k"] in ("CompoundAssignOperator", "CXXNewExpr", "CXXDeleteExpr", "LambdaExpr", "CXXThrowExpr") or \
                (x["k"] == "BinaryOperator" and x.get("op") == "=") or (x["k"] == "UnaryOperator" and x.get("op") in ("++", "--")):
            return None
    if n > 80:
        return None
    return h, st[0]["c"][0]


_NEXT_X = [300000000]


def expanded(db, f, depth=2):
    """A copy of function record f in which every call of a file-local expression helper is replaced by the helper's
    return expression (parameters -> argument trees): shape rules that opt in read `check = helper(a, b)` as the
    expression it was extracted from.  Node ids of untouched nodes are kept (CFG positions still resolve; a grafted node
    resolves to the position of its nearest original ancestor)."""
    if "_expanded" in f:
        return f["_expanded"]
    touched = [False]

    def remap_type(ht, ft, t, tmap):
        if t is None or not isinstance(t, int) or t < 0 or ht is ft:
            return t
        if t not in tmap:
            ft.append(ht[t])
            tmap[t] = len(ft) - 1
        return tmap[t]

    def graft(h, e, sub, tmap, d):
        if not isinstance(e, dict):
            return e
        if e["k"] == "DeclRefExpr" and e.get("var") in sub:
            return sub[e["var"]]
        m = dict(e)
        _NEXT_X[0] += 1
        m["id"] = _NEXT_X[0]
        m["grafted"] = True
        if "t" in m:
            m["t"] = remap_type(h.get("_types"), f.get("_types"), m["t"], tmap)
        if "c" in m:
            m["c"] = [graft(h, c, sub, tmap, d) for c in m["c"]]
        return fix_member(expand_call(m, d, h))

    def fix_member(m):
        # (*p).m  ->  p->m   (a reference parameter bound to `*p`)
        if m["k"] == "MemberExpr" and not m.get("arrow") and m.get("c"):
            b = m["c"][0]
            while isinstance(b, dict) and b["k"] in ("ParenExpr", "ImplicitCastExpr") and b.get("c"):
                b = b["c"][0]
            if isinstance(b, dict) and b["k"] == "UnaryOperator" and b.get("op") == "*" and b.get("c"):
                m = dict(m)
                m["arrow"] = True
                m["c"] = [b["c"][0]] + list(m["c"][1:])
        return m

    def expand_call(n, d, ctx):
        if n["k"] != "CallExpr" or not n.get("callee") or n.get("ext") or d <= 0:
            return n
        eh = expression_helper(db, n["callee"])
        if eh is None:
            return n
        h, ret = eh
        args = n["c"][1:]
        if len(args) != len(h.get("params", ())):
            return n
        sub = dict((p["var"], a) for p, a in zip(h["params"], args))
        touched[0] = True
        g = graft(h, ret, sub, {}, d - 1)
        g = dict(g)
        g["inlined_from"] = h["id"]
        g["l"] = n.get("l")
        return g

    def cp(n, d):
        if not isinstance(n, dict):
            return n
        m = dict(n)
        if "c" in m:
            m["c"] = [cp(c, d) for c in m["c"]]
        return fix_member(expand_call(m, d, f)) if m["k"] in ("CallExpr", "MemberExpr") else m
    f2 = dict((k, v) for k, v in f.items() if k not in ("_idx", "_parent", "_single", "_expanded"))
    f2["body"] = cp(f["body"], depth) if f.get("body") else f.get("body")
    if not touched[0]:
        f["_expanded"] = f
        return f
    f2["_expanded"] = f2
    f["_expanded"] = f2
    return f2


def deep_text(db, f, e, depth=2):
    """expr_str of e with single-assignment locals read through, followed by the text of what every library one-liner
    (`return EXPR;`) called in it returns: `!extract_more_frag(ip)` reads `... ((ip->flags() & MORE_FRAGMENTS) != 0)`.
    For rules that look for WHAT a guard tests, wherever the test was moved to."""
    e = inline_locals(f, e)
    out = [expr_str(e)]
    if depth > 0 and db is not None:
        for x in walk(e):
            if x["k"] in ("CallExpr", "CXXMemberCallExpr") and x.get("callee") and not x.get("ext"):
                h = db.fn(x["callee"])
                if h is not None and h.get("body") and h is not f and (h.get("file") or "").startswith(("src/", "include/tins")):
                    st = [y for y in h["body"].get("c", []) if y is not None]
                    if len(st) == 1 and st[0]["k"] == "ReturnStmt" and st[0].get("c"):
                        out.append(deep_text(db, h, st[0]["c"][0], depth - 1))
    return " ".join(out)


def lifted_txt(db, f, site, fn):
    """the txt function lifted_sites used for helper fn called at `site` of f (identity-with-this-dropped when fn is f)"""
    import re as _re
    from . import cfg as _cfg
    if fn is f:
        return lambda e: expr_str(e).replace("this->", "")
    sub = {}
    for p_, a_ in zip(fn.get("params", ()), _cfg.args(site)):
        if p_.get("name"):
            sub[p_["name"]] = expr_str(strip_all(inline_locals(f, a_))).replace("this->", "")

    def txt(e):
        t = expr_str(e).replace("this->", "")
        for nm, rep_ in sub.items():
            t = _re.sub(r"(?<![\w.>])%s(?!\w)" % _re.escape(nm), lambda m_: rep_, t)
        return t
    return txt
