"""Obligation bookkeeping, evidence, replay files, known findings, exit codes."""
import fnmatch
import hashlib
import json
import os
import time

from . import facts

VERIF = facts.VERIF
EVIDENCE_DIR = os.path.join(VERIF, "evidence")
REPLAY_DIR = os.path.join(VERIF, "replays")
KNOWN = os.path.join(VERIF, "known_findings.json")


class Report(object):
    """Collects obligations of one property check.

    An obligation is (rule, instance key, site, verdict, fact).  Verdicts:
      ok         discharged; `fact` says by what
      violation  refuted; becomes a VIOLATION line unless listed as known
      undecided  outside the rule's language; never a pass for that instance,
                 counted and listed, and turned into `analysis broken` when the
                 rule's minimum of decided instances is not met
    """

    def __init__(self, pid, tier, level="other"):
        self.pid = pid
        self.tier = tier
        self.level = level
        self.t0 = time.time()
        self.obls = []
        self.broken = []
        self.rules = {}
        self.assumptions = []
        self.explanation = ""
        self.minima = {}
        self.extra = {}
        self.trusted = ["clang 14 front end and CFG builder", "tools/tinsfacts.cc extractor",
                        "python rule engines under /verif/vlib and /verif/rules"]

    def rule(self, rid, text, minimum=1):
        self.rules[rid] = text
        self.minima[rid] = minimum

    def ok(self, rule, key, site, fact=""):
        self.obls.append(dict(rule=rule, key=key, site=site, verdict="ok", fact=fact))

    def violation(self, rule, key, site, what):
        self.obls.append(dict(rule=rule, key=key, site=site, verdict="violation", fact=what))

    def undecided(self, rule, key, site, why):
        self.obls.append(dict(rule=rule, key=key, site=site, verdict="undecided", fact=why))

    def analysis_broken(self, why):
        self.broken.append(why)

    # ------------------------------------------------------------------
    def finish(self, db=None):
        known = {"findings": [], "fixed": []}
        if os.path.exists(KNOWN):
            with open(KNOWN) as f:
                known = json.load(f)
        known_keys = {}
        for k in known.get("findings", []):
            if k["property"] == self.pid:
                known_keys[(k["rule"], k["key"])] = k
        # frozen minima: a rule matching fewer instances than confirmed by hand is broken
        counts = {}
        for o in self.obls:
            counts[o["rule"]] = counts.get(o["rule"], 0) + 1
        below = []
        for rid, m in self.minima.items():
            if counts.get(rid, 0) < m:
                below.append("rule %s matched %d instances, frozen minimum is %d" % (rid, counts.get(rid, 0), m))
        # a rule that lost instances is `analysis broken` - unless the same run already refuted an obligation:
        # then the refutation stands (the missing instance is usually the very construct that was removed)
        has_viol = any(o["verdict"] == "violation" for o in self.obls)
        if below and not (has_viol and not self.broken):
            self.broken += below
        elif below:
            self.extra["below_minimum_but_violations_found"] = below
        if os.environ.get("VERIF_LIST"):        # development aid: every obligation, one per line
            for o in self.obls:
                print("LIST %s %s %s %s | %s" % (o["rule"], o["key"], o["verdict"], o["site"], str(o["fact"])[:160]))
        viols, knowns = [], []
        for o in self.obls:
            if o["verdict"] == "violation":
                kf = known_keys.get((o["rule"], o["key"]))
                if kf is None:
                    for (kr, kk), kv in known_keys.items():
                        if kr == o["rule"] and fnmatch.fnmatchcase(o["key"], kk):
                            kf = kv
                            break
                if kf is not None:
                    o["verdict"] = "known"
                    knowns.append((o, kf))
                else:
                    viols.append(o)
        lines = []
        grouped = {}
        for o, kf in knowns:
            grouped.setdefault(id(kf), [kf, []])[1].append(o)
        for kf, os_ in grouped.values():
            o = os_[0]
            more = (" (+%d more instances of the same listed finding)" % (len(os_) - 1)) if len(os_) > 1 else ""
            lines.append("KNOWN-FINDING: property=%s %s [rule %s, instance %s at %s]%s" %
                         (self.pid, kf.get("what", o["fact"]), o["rule"], o["key"], o["site"], more))
        replay_paths = []
        if viols and not self.broken:
            global REPLAY_DIR
            if os.environ.get("VERIF_NO_EVIDENCE"):
                REPLAY_DIR = os.path.join(os.environ.get("VERIF_SCRATCH", "/var/tmp/verif-scratch"), "replays")
            os.makedirs(REPLAY_DIR, exist_ok=True)
            for o in viols:
                h = hashlib.sha1((o["rule"] + "|" + o["key"]).encode()).hexdigest()[:10]
                p = os.path.join(REPLAY_DIR, "%s-%s.json" % (self.pid, h))
                with open(p, "w") as f:
                    json.dump(dict(property=self.pid, rule=o["rule"], rule_text=self.rules.get(o["rule"], ""),
                                   instance=o["key"], site=o["site"], what=o["fact"],
                                   explain="./check %s --explain %s" % (self.pid, p)), f, indent=1)
                replay_paths.append(p)
                lines.append("VIOLATION property=%s replay=%s" % (self.pid, p))
                lines.append("  rule %s: %s" % (o["rule"], self.rules.get(o["rule"], "")))
                lines.append("  instance %s at %s" % (o["key"], o["site"]))
                lines.append("  %s" % o["fact"])
        n_ok = sum(1 for o in self.obls if o["verdict"] == "ok")
        n_und = sum(1 for o in self.obls if o["verdict"] == "undecided")
        n_known = len(knowns)
        per_rule = {}
        for o in self.obls:
            r = per_rule.setdefault(o["rule"], dict(text=self.rules.get(o["rule"], ""), instances=0, ok=0,
                                                    violation=0, undecided=0, known=0,
                                                    minimum=self.minima.get(o["rule"], 0)))
            r["instances"] += 1
            r[o["verdict"]] += 1
        for rid in self.rules:
            per_rule.setdefault(rid, dict(text=self.rules[rid], instances=0, ok=0, violation=0, undecided=0,
                                          known=0, minimum=self.minima.get(rid, 0)))
        samples = []
        seen_rules = set()
        for o in self.obls:
            if o["rule"] not in seen_rules or len(samples) < 12:
                if sum(1 for s in samples if s["rule"] == o["rule"]) < 3:
                    samples.append(o)
                    seen_rules.add(o["rule"])
        distinct = len(set((o["rule"], o["key"]) for o in self.obls))
        cov = dict(
            obligations=len(self.obls),
            discharged=n_ok,
            undecided=n_und,
            known_findings=n_known,
            violations=len(viols),
            evaluations=len(self.obls),
            distinct_nontrivial=distinct,
            rule="one evaluation = one obligation instance of one rule at one code site of the current tree; "
                 "distinct = distinct (rule, instance key) pairs; all are non-trivial (each names a construct "
                 "that exists in /repo now)",
            checker_cmd="./check %s --tier %s" % (self.pid, self.tier),
            trusted_base=self.trusted,
            explanation=self.explanation,
            rules=per_rule,
            samples=samples[:40],
            undecided_list=[o for o in self.obls if o["verdict"] == "undecided"][:60],
            known_list=[dict(rule=o["rule"], key=o["key"], site=o["site"]) for o, _ in knowns],
            exhaustive=False,
        )
        if db is not None:
            cov["translation_units"] = len(db.sources)
            cov["functions_in_database"] = len(db.functions)
            cov["records_in_database"] = len(db.records)
            cov["tree_key"] = db.key
            cov["config"] = db.config
        if self.level == "proof":
            # obligations refuted by a *recorded known finding* are reported separately:
            # the proof claim covers the obligations outside the recorded defect
            cov["obligations_total_including_known_findings"] = len(self.obls)
            cov["obligations"] = len(self.obls) - n_known
        cov.update(self.extra)
        if self.broken:
            cov["analysis_broken"] = self.broken
        ev = dict(property_id=self.pid, tier=self.tier, seed=int(os.environ.get("VERIF_SEED", "0") or 0),
                  level=self.level, coverage=cov, assumptions=self.assumptions,
                  wall_s=round(time.time() - self.t0, 3), violations=len(viols))
        if not os.environ.get("VERIF_NO_EVIDENCE"):
            os.makedirs(EVIDENCE_DIR, exist_ok=True)
            p = os.path.join(EVIDENCE_DIR, "%s.json" % self.pid)
            tmp = p + ".tmp%d" % os.getpid()
            with open(tmp, "w") as f:
                json.dump(ev, f, indent=1, sort_keys=True, default=str)
            os.replace(tmp, p)
        for ln in lines:
            print(ln)
        print("%s tier=%s obligations=%d discharged=%d undecided=%d known=%d violations=%d wall=%.1fs" %
              (self.pid, self.tier, len(self.obls), n_ok, n_und, n_known, len(viols), time.time() - self.t0))
        for rid in sorted(per_rule):
            r = per_rule[rid]
            print("  %-10s instances=%-4d ok=%-4d undecided=%-3d known=%-3d violation=%-3d (min %d)  %s" %
                  (rid, r["instances"], r["ok"], r["undecided"], r["known"], r["violation"], r["minimum"],
                   r["text"][:90]))
        if self.broken:
            for b in self.broken:
                print("ANALYSIS-BROKEN property=%s %s" % (self.pid, b))
            return 2
        return 1 if viols else 0
