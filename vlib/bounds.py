"""E-BOUNDS: every raw access to a byte buffer stays inside it.

Abstract interpretation of one function over the clang CFG.  The abstract state
is a set of linear facts (L >= 0) over symbolic atoms plus a symbolic value for
every integer / pointer variable:

  ("p0", var)        initial value of a parameter
  ("ext", var)       number of bytes readable behind the initial value of a
                     pointer parameter that is paired with a length parameter
  ("av", streamvar)  bytes currently remaining in an InputMemoryStream
  ("ld", node, tag)  opaque value produced at a program point (read<T>(), ...)
  ("call", text)     value of a side-effect-free accessor call (head_len(), ...)
  ("phi", blk, var)  value of a variable that differs between joined paths

Pointers are Lin values `base + offset`; every base atom has an extent (bytes
readable from it).  An access of n bytes through pointer value B + off needs
off >= 0 and ext(B) - off - n >= 0, proved by lin.Prover from the guard facts
that dominate the access.
"""
import os
from . import facts, cfg, cond
from .facts import strip
from .lin import Lin, Prover, const, atom, atom_str

STREAM = "Tins::Memory::InputMemoryStream"
OSTREAM = "Tins::Memory::OutputMemoryStream"

# external sinks: name -> list of (pointer arg index, length arg index, "r"/"w")
EXT_SINKS = {
    "memcpy": [(0, 2, "w"), (1, 2, "r")], "memmove": [(0, 2, "w"), (1, 2, "r")],
    "memcmp": [(0, 2, "r"), (1, 2, "r")], "memset": [(0, 2, "w")],
    "crc32": [(0, 1, "r")],
}


# in-repo helpers that read/write `len` elements through bare pointers: qualified name -> [(ptr idx, len idx, mode)]
INTERNAL_SINKS = {
    "Tins::Crypto::xor_range": [(0, 3, "r"), (1, 3, "r"), (2, 3, "w")],
}
# external sinks whose length argument is in bits
EXT_SINKS_BITS = {"AES_set_encrypt_key": [(0, 1, "r")], "AES_set_decrypt_key": [(0, 1, "r")]}
# external functions that read/write a fixed number of bytes through a pointer argument
EXT_FIXED = {"AES_encrypt": [(0, 16, "r"), (1, 16, "w")], "AES_decrypt": [(0, 16, "r"), (1, 16, "w")],
             "HMAC": [(5, 20, "w")]}
EXT_PAIRS = {"HMAC": [(1, 2, "r"), (3, 4, "r")], "PKCS5_PBKDF2_HMAC_SHA1": [(0, 1, "r"), (2, 3, "r"), (6, 5, "w")]}


def tname(t):
    while t and t.get("k") in ("ref",):
        t = t.get("to")
    return (t or {}).get("name") if t else None


def is_int(t):
    return bool(t) and t.get("k") in ("int", "bool", "enum")


def is_unsigned(t):
    return bool(t) and (t.get("k") == "bool" or (t.get("k") in ("int", "enum") and not t.get("sg")))


def is_byteptr(t):
    if not t or t.get("k") != "ptr":
        return False
    to = t.get("to") or {}
    return to.get("k") == "void" or (to.get("k") == "int" and to.get("w") == 8)


def is_ptr(t):
    return bool(t) and t.get("k") == "ptr"


def inout_ref(t):
    """non-const lvalue reference"""
    return bool(t) and t.get("k") == "ref" and bool(t.get("to")) and not t["to"].get("const")


UNION_ARMS = {"big_buffer_ptr": "big", "small_buffer": "small"}

# Preconditions of internal helpers (checked at every call site by check_preconditions):
#   (function, parameter index) -> (member vector the pointer lies in, "within")
PRECONDITIONS = {
    ("Tins::DNS::compose_name", 0): ("records_data_", "within"),
    ("Tins::DNS::convert_records", 0): ("records_data_", "within"),
    ("Tins::DNS::convert_records", 1): ("records_data_", "within"),
    ("Tins::DNS::update_dname", 0): ("records_data_", "within"),
}
#   function -> [(i, j)]: parameter i <= parameter j (both pointers into the same vector)
PRE_ORDER = {
    "Tins::DNS::convert_records": [(0, 1)],
}
# Class invariants: assumed on entry of every non-constructor member function, proved at every normal exit of
# constructors and non-const member functions.  Each item: (text, [(sign, ("fld"|"size", name)), ...]) meaning sum >= 0
CLASS_INVARIANTS = {
    "Tins::DNS": [
        ("answers_idx_ <= authority_idx_", [(1, ("fld", "authority_idx_")), (-1, ("fld", "answers_idx_"))]),
        ("authority_idx_ <= additional_idx_", [(1, ("fld", "additional_idx_")), (-1, ("fld", "authority_idx_"))]),
        ("additional_idx_ <= records_data_.size()", [(1, ("call", "records_data_.size()")), (-1, ("fld", "additional_idx_"))]),
    ],
}
#   (function, parameter index) -> size in bytes of the output buffer the caller must provide
OUT_BUFFERS = {
    ("Tins::DNS::compose_name", 1): 256,
    ("Tins::DNS::inline_convert_v4", 1): 16,
}


_HDR_TEXT = {}


def name_in_headers(db, name):
    """does the identifier occur anywhere under include/ (textual; a function that does not is not part of the API)"""
    import re as _re
    if not name or not _re.match(r"^[A-Za-z_]\w*$", name):
        return True
    key = db.repo
    if key not in _HDR_TEXT:
        txt = []
        for root, _, files in os.walk(os.path.join(db.repo, "include")):
            for fn_ in files:
                try:
                    with open(os.path.join(root, fn_), errors="replace") as fh:
                        txt.append(fh.read())
                except OSError:
                    pass
        _HDR_TEXT[key] = "\n".join(txt)
    return _re.search(r"\b%s\b" % _re.escape(name), _HDR_TEXT[key]) is not None


def radiotap_option_sizes(db, cache={}):
    """Postcondition of RadioTap::do_find_option(F): the option it returns holds exactly
    RADIOTAP_METADATA[bit(F)].size bytes.  The postcondition is only used when its ingredients
    are present in the current tree (checked here on resolved AST shapes):
      (i)   RadioTapParser::current_option() takes `size` from RADIOTAP_METADATA[current_bit_].size, throws when
            current_ptr_ + size > end_ and returns option(current_field(), size, current_ptr_);
      (ii)  RadioTapParser::current_field() returns 1 << current_bit_;
      (iii) RadioTapParser::skip_to_field(flag) loops while has_fields() && current_field() != flag;
      (iv)  RadioTap::do_find_option(type) throws unless parser.skip_to_field(type), then returns parser.current_option().
    Returns {flag value: size} or None."""
    if db.key in cache:
        return cache[db.key]
    res = None
    try:
        g = db.globals.get("g:Tins::Utils::RadioTapParser::RADIOTAP_METADATA")
        co = db.fns_named("Tins::Utils::RadioTapParser::current_option")
        cf = db.fns_named("Tins::Utils::RadioTapParser::current_field")
        sk = db.fns_named("Tins::Utils::RadioTapParser::skip_to_field")
        df = db.fns_named("Tins::RadioTap::do_find_option")
        ok = bool(g and g.get("init") and co and cf and sk and df)
        if ok:
            rows = [[facts.cval(x) for x in r.get("c", [])] for r in g["init"].get("c", []) if r["k"] == "InitListExpr"]
            ok = len(rows) >= 20 and all(len(r) == 2 and r[0] for r in rows)
        if ok:
            f = co[0]
            txt = " ".join(facts.expr_str(n) for n in facts.fn_nodes(f) if n["k"] in ("VarDecl", "ReturnStmt", "IfStmt") or True)
            size_var = None
            for n in facts.fn_nodes(f):
                if n["k"] == "VarDecl" and n.get("c"):
                    e = facts.strip_all(n["c"][0])
                    if e["k"] == "MemberExpr" and e.get("member") == "size":
                        b = strip(e["c"][0])
                        if b["k"] == "ArraySubscriptExpr" and "RADIOTAP_METADATA" in facts.expr_str(b["c"][0]) and \
                                facts.expr_str(b["c"][1]) == "current_bit_":
                            size_var = n["var"]
            guard = False
            ret = False
            for n in facts.fn_nodes(f):
                if n["k"] == "IfStmt":
                    for (op, l, r) in cond.facts_of(f, n["c"][0] if n["c"][0] is not None else n["c"][1], True):
                        if r is None or op not in (">", "<"):
                            continue
                        # `current_ptr_ + size > end_`, from either side and through a named local for the sum
                        big, small = (l, r) if op == ">" else (r, l)
                        big = facts.strip_all(big)
                        if big["k"] == "DeclRefExpr":
                            big = facts.strip_all(facts.inline_locals(f, big, depth=1))
                        if facts.expr_str(facts.strip_all(small)).replace("this->", "") != "end_" or big["k"] != "BinaryOperator" or big.get("op") != "+":
                            continue
                        ops_ = [facts.strip_all(big["c"][0]), facts.strip_all(big["c"][1])]
                        if any(facts.expr_str(o_).replace("this->", "") == "current_ptr_" for o_ in ops_) and \
                                any(o_.get("var") == size_var for o_ in ops_):
                            if any(x["k"] == "CXXThrowExpr" for x in facts.walk(n)):
                                guard = True
                if n["k"] == "ReturnStmt":
                    for x in facts.walk(n):
                        if x["k"] in ("CXXConstructExpr", "CXXTemporaryObjectExpr") and (x.get("crec") or "").startswith("Tins::PDUOption<") \
                                and len(x.get("c", [])) == 3:
                            a = x["c"]
                            if "current_field" in facts.expr_str(a[0]) and strip(a[1]).get("var") == size_var and \
                                    facts.expr_str(a[2]) == "current_ptr_":
                                ret = True
            ok = bool(size_var and guard and ret)
        if ok:
            from rules import c13 as _c13
            e = _c13.ret_expr(cf[0])
            ok = e is not None and "(1 << current_bit_)" in facts.expr_str(e)
        if ok:
            f = sk[0]
            loops = [n for n in facts.fn_nodes(f) if n["k"] == "WhileStmt"]
            ok = len(loops) == 1
            if ok:
                c = loops[0]["c"][0] if len(loops[0]["c"]) == 2 else loops[0]["c"][1]
                at = cond.facts_of(f, c, True)
                pv = f["params"][0]["var"]
                rets = [n for n in facts.fn_nodes(f) if n["k"] == "ReturnStmt"]
                # form A: while (has_fields() && current_field() != flag) advance; return has_fields();
                form_a = any(op == "!=" and r is not None and "current_field" in facts.expr_str(l) and strip(r).get("var") == pv for op, l, r in at) and \
                    any(op == "true" and "has_fields" in facts.expr_str(l) for op, l, r in at) and \
                    len(rets) == 1 and "has_fields" in facts.expr_str(rets[0]["c"][0])
                # form B: every `return <not the constant false>` stands under has_fields() and current_field() == flag
                gsk = cfg.FnCFG(f)
                form_b = bool(rets)
                n_true = 0
                for r_ in rets:
                    if facts.cval(r_["c"][0]) == 0:
                        continue
                    n_true += 1
                    gfs_ = cond.guards_facts(gsk, gsk.pos(r_))
                    if not (any(op == "==" and rr is not None and "current_field" in facts.expr_str(l) + facts.expr_str(rr) and
                                (strip(rr).get("var") == pv or strip(l).get("var") == pv) for op, l, rr in gfs_) and
                            any(op == "true" and "has_fields" in facts.expr_str(l) for op, l, rr in gfs_)):
                        form_b = False
                ok = form_a or (form_b and n_true >= 1)
        if ok:
            f = df[0]
            pv = f["params"][0]["var"]
            gg = cfg.FnCFG(f)
            rets = [n for n in facts.fn_nodes(f) if n["k"] == "ReturnStmt"]
            ok = len(rets) == 1 and "current_option" in facts.expr_str(rets[0]["c"][0])
            if ok:
                gfs = cond.guards_facts(gg, gg.pos(rets[0]))
                ok = any(op == "true" and "skip_to_field" in facts.expr_str(l) and
                         any(x.get("var") == pv for x in facts.walk(l)) for op, l, r in gfs)
        if ok:
            res = dict(((1 << i), rows[i][0]) for i in range(len(rows)))
    except Exception:
        res = None
    cache[db.key] = res
    return res


class State(object):
    __slots__ = ("facts", "sym", "streams", "mods", "snaps")

    def __init__(self, facts_=frozenset(), sym=None, streams=None, mods=frozenset(), snaps=None):
        self.facts = facts_
        self.sym = sym or {}
        self.streams = streams or {}   # stream var -> (base Lin, extent Lin)
        self.mods = mods               # {(Lin, m)}: Lin == 0 (mod m)
        self.snaps = snaps or {}       # snapshot atom -> its value in terms of the moving cursor (kept current)

    def copy(self):
        return State(self.facts, dict(self.sym), dict(self.streams), self.mods, dict(self.snaps))

    def key(self):
        return (self.facts, tuple(sorted(self.sym.items(), key=lambda kv: kv[0])),
                tuple(sorted(self.streams.items(), key=lambda kv: kv[0])), self.mods,
                tuple(sorted(self.snaps.items(), key=lambda kv: kv[0])))


def congruent(D, m, mods):
    """is Lin D == 0 (mod m) derivable from the congruences in mods?"""
    import itertools
    ms = [(L, mm) for (L, mm) in mods if mm % m == 0]
    if len(ms) > 6:
        ms = ms[:6]
    for eps in itertools.product((0, 1, -1), repeat=len(ms)):
        R = D
        for e_, (L, _) in zip(eps, ms):
            if e_:
                R = R - L.scale(e_)
        if R.is_const() and R.k % m == 0:
            return True
    return False


class Obligation(object):
    def __init__(self, node, kind, text, verdict, why):
        self.node, self.kind, self.text, self.verdict, self.why = node, kind, text, verdict, why


class FnBounds(object):
    REQ_CACHE = {}

    def __init__(self, db, f, pair_params=None, summaries=None, assume_pairs=True, export=False, depth=0):
        self.db, self.f = db, f
        self.export = export
        self.depth = depth
        self.g = cfg.FnCFG(f)
        self.obls = {}          # node id -> Obligation (last evaluation wins; violations sticky)
        self.signed = set()
        self.ub = {}
        self.extent = {}        # base atom -> Lin extent
        self.summaries = summaries or {}
        self.pairs = pair_params if pair_params is not None else self.find_pairs()
        self.requirements = []  # for summaries: (param index, Lin need over p0 atoms)
        self.field_writes = 0
        self.state_requirements = []
        self.req_nodes = {}      # (requirement, text) -> id of the obligation node that raised it
        self.init_member = {}
        for i in f.get("inits", []):
            if i.get("member") and i.get("e"):
                self.init_member[i["e"]["id"]] = i["member"]
        self.exit_states = []

    # ------------------------------------------------------------------ setup
    def find_pairs(self):
        """(pointer param, length param) pairs by adjacency and type"""
        ps = self.f["params"]
        out = {}
        for i in range(len(ps) - 1):
            t0, t1 = facts.tyi(self.f, ps[i]["t"]), facts.tyi(self.f, ps[i + 1]["t"])
            if is_byteptr(t0) and is_int(t1) and (t1.get("w", 0) >= 16):
                out[ps[i]["var"]] = ps[i + 1]["var"]
            elif inout_ref(t0) and inout_ref(t1) and is_byteptr(t0["to"]) and is_int(t1["to"]) and t1["to"].get("w", 0) >= 16:
                # (const uint8_t*& cursor, uint32_t& remaining): an in-out cursor pair of a parsing helper
                out[ps[i]["var"]] = ps[i + 1]["var"]
        return out

    def initial(self):
        st = State()
        f = self.f
        fs = set()
        for p in f["params"]:
            t = facts.tyi(f, p["t"])
            v = p["var"]
            if t and t.get("k") == "ref" and is_int(t.get("to")) and not (t.get("to") or {}).get("const"):
                t = t["to"]      # int& parameter: its current value is tracked like a local
            elif t and t.get("k") == "ref" and is_int(t.get("to")):
                t = t["to"]
            elif inout_ref(t) and is_byteptr(t.get("to")) and v in self.pairs:
                t = t["to"]      # the cursor of an in-out cursor pair: tracked like a pointer local
            if is_int(t) or is_ptr(t):
                a = ("p0", v)
                st.sym[v] = atom(a)
                if is_int(t) and not is_unsigned(t):
                    self.signed.add(a)
                if is_int(t) and t.get("w") and t["w"] <= 32 and is_unsigned(t):
                    self.ub[a] = (1 << t["w"]) - 1
            tn = tname(t)
            if tn == STREAM:
                # a stream received by reference: unknown remaining bytes, own base
                b = ("sb", v)
                e = ("se", v)
                st.streams[v] = (atom(b), atom(e))
                self.extent[b] = atom(e)
                self.ub[e] = (1 << 32) - 1     # every buffer length in the library is a uint32_t
                fs.add(atom(e) - atom(("av", v)))      # av <= extent
        for pv, lv in self.pairs.items():
            b = ("p0", pv)
            self.extent[b] = atom(("p0", lv))
        if f.get("rec") in (STREAM, OSTREAM):
            # the cursor classes themselves: buffer_ is readable/writable for size_ bytes
            self.extent[("fld", "buffer_")] = atom(("fld", "size_"))
        for (qual, pidx), (vec, kind) in PRECONDITIONS.items():
            if f["qual"] == qual and pidx < len(f["params"]):
                pv = f["params"][pidx]["var"]
                b = ("vec", vec)
                self.extent[b] = atom(("call", vec + ".size()"))
                off = ("p0off", pv)
                st.sym[pv] = atom(b) + atom(off)
                fs.add(self.extent[b] - atom(off))        # 0 <= off <= size
                self.pairs.pop(pv, None)
        for (i, j) in PRE_ORDER.get(f["qual"], []):
            if i < len(f["params"]) and j < len(f["params"]):
                fs.add(atom(("p0off", f["params"][j]["var"])) - atom(("p0off", f["params"][i]["var"])))
        if f.get("rec") in CLASS_INVARIANTS and f.get("kind") != "ctor":
            for text, terms in CLASS_INVARIANTS[f["rec"]]:
                fs.add(self.inv_lin(terms))
        for (qual, pidx), nbytes in OUT_BUFFERS.items():
            if f["qual"] == qual and pidx < len(f["params"]):
                pv = f["params"][pidx]["var"]
                self.extent[("p0", pv)] = const(nbytes)
                self.pairs.pop(pv, None)
        if self.export:
            for p in f["params"]:
                t = facts.tyi(f, p["t"])
                if is_ptr(t) and p["var"] not in self.pairs and ("p0", p["var"]) not in self.extent:
                    to = t.get("to") or {}
                    if to.get("k") in ("int", "void", "rec"):
                        self.extent[("p0", p["var"])] = atom(("xext", p["var"]))
        st.facts = frozenset(fs)
        return st

    def inv_lin(self, terms):
        L = const(0)
        for sg, a in terms:
            L = L + (const(sg) if a == ("one",) else atom(a).scale(sg))
        return L

    def check_exit_invariants(self, st, node):
        f = self.f
        if f.get("rec") not in CLASS_INVARIANTS:
            return
        if not (f.get("kind") == "ctor" or (f.get("kind") == "method" and not f.get("const") and not f.get("static"))):
            return
        for text, terms in CLASS_INVARIANTS[f["rec"]]:
            G = self.inv_lin(terms)
            fake = {"id": "inv:%s:%s" % (text, node["id"]), "l": node.get("l", f["line"]), "k": "Invariant"}
            if self.prove(G, st, 4):
                self.record(fake, "invariant", text, "ok", "class invariant holds when the function returns")
            else:
                self.record(fake, "invariant", text, "violation",
                            "class invariant `%s` is not re-established on a path to this return; facts: {%s}" %
                            (text, ", ".join("%s>=0" % x for x in sorted(st.facts, key=repr)[:8])))

    def check_call_preconditions(self, n, args, st, pos):
        """obligations at call sites of helpers that assume their pointer arguments lie in a member vector"""
        callee = n.get("callee")
        g = self.db.fn(callee) if callee else None
        if g is None:
            return
        q = g["qual"]
        offs = {}
        for (qual, pidx), (vec, kind) in PRECONDITIONS.items():
            if qual != q or pidx >= len(args):
                continue
            P = self.lin(args[pidx], st, pos)
            b = ("vec", vec)
            text = "%s(arg %d = %s) must point into %s" % (g["name"], pidx, facts.expr_str(args[pidx])[:40], vec)
            if P is None or P.terms().get(b) != 1:
                self.record(args[pidx], "precondition", text, "violation" if P is not None else "undecided",
                            "argument %s is not derived from %s" % (P, vec))
                continue
            off = P - atom(b)
            offs[pidx] = off
            ext = self.extent.get(b, atom(("call", vec + ".size()")))
            self.extent[b] = ext
            if self.prove(off, st) and self.prove(ext - off, st):
                self.record(args[pidx], "precondition", text, "ok", "offset %s within [0, %s]" % (off, ext))
            elif self.export_goals(args[pidx], text, [G_ for G_ in (off, ext - off) if not self.prove(G_, st)]):
                self.record(args[pidx], "precondition", text, "ok", "passed on to this function's own callers (private helper)")
            else:
                self.record(args[pidx], "precondition", text, "violation",
                            "cannot show 0 <= %s <= %s from the guards in force: {%s}" %
                            (off, ext, ", ".join("%s>=0" % x for x in sorted(st.facts, key=repr)[:8])))
        for (i, j) in PRE_ORDER.get(q, []):
            if i in offs and j in offs:
                fake = {"id": "ord:%s" % n["id"], "l": n.get("l", 0), "k": "Order"}
                text = "%s: argument %d <= argument %d" % (g["name"], i, j)
                if self.prove(offs[j] - offs[i], st):
                    self.record(fake, "precondition", text, "ok", "%s <= %s" % (offs[i], offs[j]))
                elif self.export_goals(fake, text, [offs[j] - offs[i]]):
                    self.record(fake, "precondition", text, "ok", "passed on to this function's own callers (private helper)")
                else:
                    self.record(fake, "precondition", text, "violation", "cannot show %s <= %s" % (offs[i], offs[j]))
        for (qual, pidx), nbytes in OUT_BUFFERS.items():
            if qual != q or pidx >= len(args):
                continue
            a = facts.strip_all(args[pidx])
            t = facts.ty(self.f, a)
            text = "%s(arg %d) needs an output buffer of %d bytes" % (g["name"], pidx, nbytes)
            cap = None
            if t and t.get("k") == "arr" and t.get("n") is not None:
                cap = t["n"] * self.elem_size({"to": t.get("to")})
            if cap is None:
                # forwarded parameter with the same contract?
                if a["k"] == "DeclRefExpr" and a.get("parm"):
                    pi = [k_ for k_, p_ in enumerate(self.f["params"]) if p_["var"] == a.get("var")]
                    if pi and OUT_BUFFERS.get((self.f["qual"], pi[0]), 0) >= nbytes:
                        cap = OUT_BUFFERS[(self.f["qual"], pi[0])]
            if cap is not None and cap >= nbytes:
                self.record(args[pidx], "precondition", text, "ok", "buffer of %d bytes passed" % cap)
            else:
                self.record(args[pidx], "precondition", text, "violation" if cap is not None else "undecided",
                            "output buffer %s has %s bytes" % (facts.expr_str(a), cap))

    REF_CACHE = {}

    def ref_effects(self, callee):
        """{param index: Lin over the callee's p0 atoms} final value of every non-const int& parameter, when all
        normal exits agree; index -> None when the callee changes it in a way the analysis cannot express"""
        key = (self.db.key, callee)
        if key in FnBounds.REF_CACHE:
            return FnBounds.REF_CACHE[key]
        g = self.db.fn(callee)
        res = {}
        if g is not None:
            idxs = []
            for i, p in enumerate(g["params"]):
                t = facts.tyi(g, p["t"])
                if t and t.get("k") == "ref" and is_int(t.get("to")) and not (t.get("to") or {}).get("const"):
                    idxs.append(i)
            if idxs:
                FnBounds.REF_CACHE[key] = dict((i, None) for i in idxs)
                if g.get("cfg") and self.depth < 2:
                    try:
                        b = FnBounds(self.db, g, depth=self.depth + 1).run()
                        for i in idxs:
                            v = g["params"][i]["var"]
                            vals = set(st.sym.get(v) for st in b.exit_states)
                            if len(vals) == 1 and None not in vals:
                                L = list(vals)[0]
                                if not L.mentions(lambda a: a[0] != "p0"):
                                    res[i] = L
                                    continue
                            res[i] = None
                    except Exception:
                        res = dict((i, None) for i in idxs)
                else:
                    res = dict((i, None) for i in idxs)
        FnBounds.REF_CACHE[key] = res
        return res

    CURSOR_CACHE = {}

    def cursor_pairs(self, callee):
        """[(i, j)]: parameters i (byte pointer&) and j (unsigned&) of `callee` form an in-out cursor pair that every
        normal exit leaves inside the window it was given: cursor' >= cursor and cursor' + remaining' <= cursor + remaining"""
        key = (self.db.key, callee)
        if key in FnBounds.CURSOR_CACHE:
            return FnBounds.CURSOR_CACHE[key]
        FnBounds.CURSOR_CACHE[key] = []
        g = self.db.fn(callee) if callee else None
        res = []
        if g is not None and g.get("cfg") and g.get("body") and self.depth < 2:
            cand = []
            ps = g["params"]
            for i in range(len(ps) - 1):
                t0, t1 = facts.tyi(g, ps[i]["t"]), facts.tyi(g, ps[i + 1]["t"])
                if inout_ref(t0) and inout_ref(t1) and is_byteptr(t0["to"]) and is_int(t1["to"]) and t1["to"].get("w", 0) >= 16:
                    cand.append((i, i + 1))
            if cand:
                try:
                    b = FnBounds(self.db, g, depth=self.depth + 1).run()
                    for (i, j) in cand:
                        pv, lv = ps[i]["var"], ps[j]["var"]
                        ok = bool(b.exit_states)
                        for st in b.exit_states:
                            P, N = st.sym.get(pv), st.sym.get(lv)
                            if P is None or N is None:
                                ok = False
                                break
                            D = P - atom(("p0", pv))
                            if not b.prove(D, st, 4) or not b.prove(atom(("p0", lv)) - N - D, st, 4):
                                ok = False
                                break
                        if ok:
                            res.append((i, j))
                except Exception:
                    res = []
        FnBounds.CURSOR_CACHE[key] = res
        return res

    def apply_cursor_pairs(self, n, args, st, pos):
        """the caller's view of an in-out cursor pair after the call: the cursor moved forward by an unknown D >= 0 and the
        remaining length shrank by at least D"""
        done = set()
        callee = n.get("callee")
        if not callee or n.get("ext"):
            return done
        for (i, j) in self.cursor_pairs(callee):
            if j >= len(args):
                continue
            a, l = strip(args[i]), strip(args[j])
            if a["k"] != "DeclRefExpr" or l["k"] != "DeclRefExpr" or not a.get("var") or not l.get("var"):
                continue
            P, L = self.lin(a, st, pos), self.lin(l, st, pos)
            if P is None or L is None:
                continue
            D = ("ld", str(n["id"]), "advanced")
            R = ("ld", str(n["id"]), "remaining")
            self.fresh.add(D)
            self.fresh.add(R)
            st.sym[a["var"]] = P + atom(D)
            st.sym[l["var"]] = atom(R)
            st.facts = frozenset(set(st.facts) | set([atom(D), atom(R), L - atom(D) - atom(R)]))
            done.update((i, j))
        return done

    def apply_ref_effects(self, n, args, st, pos):
        callee = n.get("callee")
        if not callee or n.get("ext"):
            return
        handled = self.apply_cursor_pairs(n, args, st, pos)
        eff = self.ref_effects(callee)
        if not eff:
            return
        eff = dict((i_, v_) for i_, v_ in eff.items() if i_ not in handled)
        g = self.db.fn(callee)
        argl = {}
        for j, pp in enumerate(g["params"]):
            if j < len(args) and isinstance(args[j], dict):
                argl[("p0", pp["var"])] = self.lin(args[j], st, pos)
        for i, L in eff.items():
            if i >= len(args):
                continue
            target = strip(args[i])
            new = None
            if L is not None:
                new = L
                for at in L.atoms():
                    if argl.get(at) is not None:
                        new = new.subst(at, argl[at])
                    else:
                        new = None
                        break
            if target["k"] == "DeclRefExpr" and target.get("var"):
                self.set_var(st, target["var"], new, n)
            elif target["k"] == "MemberExpr" and target.get("isfield"):
                fa = ("fld", facts.expr_str(target))
                old = ("ld", "old%s" % n["id"], "old:" + fa[1])
                self.fresh.add(old)
                if new is not None:
                    new = new.subst(fa, atom(old))
                st.facts = frozenset(x.subst(fa, atom(old)) for x in st.facts if not x.mentions(lambda a: a == old))
                for v in st.sym:
                    st.sym[v] = st.sym[v].subst(fa, atom(old))
                if new is not None:
                    st.facts = frozenset(set(st.facts) | set([atom(fa) - new, new - atom(fa)]))
            else:
                # modified through an expression we cannot name (e.g. *ptr_to_member): every member whose
                # address is taken somewhere in the class may have changed
                for a_ in self.address_taken_fields():
                    self.kill_atoms(st, lambda x, a_=a_: x == ("fld", a_))

    def address_taken_fields(self):
        if getattr(self, "_atf", None) is not None:
            return self._atf
        out = set()
        rec = self.f.get("rec")
        for g in self.db.functions.values():
            if g.get("rec") != rec:
                continue
            idx, parent = facts.index_fn(g)
            for x in facts.fn_nodes(g):
                if x["k"] == "UnaryOperator" and x.get("op") == "&":
                    y = strip(x["c"][0])
                    if y["k"] == "MemberExpr" and y.get("isfield") and y.get("c") and strip(y["c"][0])["k"] == "CXXThisExpr":
                        out.add(y["member"])
        self._atf = out
        return out

    def callee_requirements(self, callee):
        """[(param index, need Lin over the callee's p0 atoms)] or None"""
        key = (self.db.key, callee)
        if key in FnBounds.REQ_CACHE:
            return FnBounds.REQ_CACHE[key]
        g = self.db.fn(callee)
        res = None
        if g is not None and g.get("cfg") and self.depth < 2:
            FnBounds.REQ_CACHE[key] = None     # recursion guard
            try:
                b = FnBounds(self.db, g, export=True, depth=self.depth + 1).run()
                bad = [o for o in b.obls.values() if o.verdict != "ok"]
                if not bad:
                    res = (b.requirements, g)
            except Exception:
                res = None
        FnBounds.REQ_CACHE[key] = res
        return res

    # ------------------------------------------------------------------ expression -> Lin
    def lin(self, e, st, pos=None):
        """symbolic value of integer/pointer expression e in state st, or None"""
        if e is None:
            return None
        v = facts.cval(e) if (e["k"] != "DeclRefExpr" or "v" in e) else None
        if v is not None and isinstance(v, int):
            return const(v)
        k = e["k"]
        c = e.get("c", [])
        f = self.f
        if k in ("ParenExpr", "ExprWithCleanups", "MaterializeTemporaryExpr", "CXXBindTemporaryExpr", "ConstantExpr"):
            return self.lin(c[0], st, pos)
        if k in ("ImplicitCastExpr", "CStyleCastExpr", "CXXStaticCastExpr", "CXXFunctionalCastExpr",
                 "CXXReinterpretCastExpr", "CXXConstCastExpr"):
            if not c:
                return None
            sub = self.lin(c[0], st, pos)
            t, s = facts.ty(f, e), facts.ty(f, c[0])
            if sub is None:
                return None
            if is_ptr(t) or (is_ptr(s) and is_int(t)):
                return sub
            if is_int(t) and is_int(s):
                if t.get("w", 0) >= s.get("w", 0) and not (s.get("sg") and not t.get("sg")):
                    return sub         # widening of an unsigned value (or same width)
                if t.get("w", 0) >= s.get("w", 0) and s.get("sg"):
                    # signed -> wider unsigned: value preserved only if non-negative
                    if sub.is_const() and sub.k >= 0:
                        return sub
                    if self.prove(sub, st):
                        return sub
                    return self.opaque(e, "sx")
                # narrowing: value preserved only when provably in range
                if sub.is_const() and 0 <= sub.k < (1 << t.get("w", 64)):
                    return sub
                mx = self.upper(sub)
                if mx is not None and mx < (1 << t.get("w", 64)):
                    return sub
                if self.prove(const((1 << t.get("w", 64)) - 1) - sub, st):
                    return sub
                o = self.opaque(e, "narrow")
                if is_unsigned(s) and is_unsigned(t) and self.prove(sub, st):
                    self.pending.append(sub - o)     # truncation of a non-negative value never increases it
                return o
            return sub
        if k == "DeclRefExpr":
            var = e.get("var")
            if var in st.sym:
                return st.sym[var]
            t = facts.ty(f, e)
            if e.get("glob") and (is_int(t) or is_ptr(t)):
                gd = self.db.globals.get(var)
                if gd is not None and gd.get("init") is not None and (gd.get("const") or (t or {}).get("const")):
                    gv = facts.cval(gd["init"])
                    if gv is not None:
                        return const(gv)
                return atom(("glob", var))
            return None
        if k == "MemberExpr" and e.get("isfield"):
            t = facts.ty(f, e)
            if is_int(t) or is_ptr(t):
                a = ("fld", facts.expr_str(e))
                if e.get("bitw"):
                    self.ub[a] = (1 << e["bitw"]) - 1
                elif is_int(t) and t.get("w", 64) <= 16:
                    self.ub[a] = (1 << t["w"]) - 1
                if is_int(t) and not is_unsigned(t):
                    self.signed.add(a)
                return atom(a)
            return None
        if k == "BinaryOperator":
            op = e["op"]
            if op in ("+", "-"):
                a, b = self.lin(c[0], st, pos), self.lin(c[1], st, pos)
                if a is None or b is None:
                    return None
                ta, tb = facts.ty(f, c[0]), facts.ty(f, c[1])
                # pointer arithmetic on typed pointers scales by the element size
                if is_ptr(ta) and not is_ptr(tb):
                    b = b.scale(self.elem_size(ta))
                if is_ptr(tb) and not is_ptr(ta) and op == "+":
                    a = a.scale(self.elem_size(tb))
                if op == "+":
                    return a + b
                r = a - b
                if is_ptr(ta) and is_ptr(tb):
                    es = self.elem_size(ta)
                    return r if es == 1 else None
                if is_ptr(ta):
                    return r
                # unsigned subtraction wraps unless b <= a is known
                t = facts.ty(f, e)
                if is_unsigned(t) and not self.prove(r, st):
                    return self.opaque(e, "sub")
                return r
            if op == "*":
                a, b = self.lin(c[0], st, pos), self.lin(c[1], st, pos)
                if a is not None and b is not None:
                    if a.is_const():
                        return b.scale(a.k)
                    if b.is_const():
                        return a.scale(b.k)
                return self.opaque(e, "mul")
            if op == "<<":
                a, b = self.lin(c[0], st, pos), self.lin(c[1], st, pos)
                if a is not None and b is not None and b.is_const() and 0 <= b.k < 32:
                    return a.scale(1 << b.k)
                return self.opaque(e, "shl")
            if op in ("&", "|", "^", ">>", "/", "%"):
                o = self.opaque(e, "bits")
                # upper bounds from masks / shifts / division
                from . import bits as _b
                mv = _b.Bounds(f, False).maxv(e)
                if mv is not None:
                    self.ub[o.atoms()[0]] = mv
                if op == "%":
                    kk = facts.cval(c[1])
                    if kk:
                        self.ub[o.atoms()[0]] = kk - 1
                if op == "/":
                    a = self.lin(c[0], st, pos)
                    kk = facts.cval(c[1])
                    if a is not None and kk and kk > 0:
                        # o*kk <= a
                        self.extra_facts = getattr(self, "extra_facts", [])
                        self.extra_facts.append(a - o.scale(kk))
                return o
            if op == ",":
                return self.lin(c[1], st, pos)
            return None
        if k == "UnaryOperator":
            if e["op"] == "&":
                x = strip(c[0])
                # &v[0] / &*p
                if x["k"] == "ArraySubscriptExpr":
                    b = self.lin(x["c"][0], st, pos)
                    i = self.lin(x["c"][1], st, pos)
                    if b is not None and i is not None:
                        return b + i.scale(self.elem_size(facts.ty(f, x["c"][0])))
                if x["k"] == "UnaryOperator" and x["op"] == "*":
                    return self.lin(x["c"][0], st, pos)
                if x["k"] == "CXXOperatorCallExpr" and x.get("op") in ("[]", "*"):
                    return self.container_data(x, st)
                return self.opaque(e, "addr")
            if e["op"] in ("++", "--"):
                # value computed when the increment itself was evaluated (it precedes its users in the CFG)
                return self.incval.get(e["id"])
            if e["op"] == "-":
                a = self.lin(c[0], st, pos)
                return a.scale(-1) if a is not None else None
            if e["op"] == "*":
                P = self.lin(c[0], st, pos)
                pt = facts.ty(f, c[0])
                if P is not None and is_ptr(pt) and ((pt.get("to") or {}).get("const")) and \
                        not P.mentions(lambda a: a[0] == "av"):
                    a = ("mem", repr(P), tuple(P.atoms()))
                    t = facts.ty(f, e)
                    if is_int(t) and is_unsigned(t) and t.get("w", 64) <= 16:
                        self.ub[a] = (1 << t["w"]) - 1
                    elif is_int(t) and not is_unsigned(t):
                        self.signed.add(a)
                    return atom(a)
            return self.opaque(e, "un")
        if k == "ConditionalOperator":
            o = self.opaque(e, "sel")
            a, b = self.lin(c[1], st, pos), self.lin(c[2], st, pos)
            if a is not None and b is not None and a.is_const() and b.is_const():
                self.pending.append(o - min(a.k, b.k))
                self.pending.append(const(max(a.k, b.k)) - o)
            elif a is not None and b is not None:
                ua, ub_ = self.upper(a), self.upper(b)
                if ua is not None and ub_ is not None:
                    self.ub[o.atoms()[0]] = max(ua, ub_)
            # min / max idioms:  (x < y) ? x : y
            cf = cond.facts_of(f, c[0], True)
            if a is not None and b is not None and len(cf) == 1 and cf[0][2] is not None:
                op, l, r = cf[0]
                ll, rl = self.lin(l, st, pos), self.lin(r, st, pos)
                if ll is not None and rl is not None and op in ("<", "<=", ">", ">="):
                    lo_first = op in ("<", "<=")
                    if (ll == a and rl == b and lo_first) or (ll == b and rl == a and not lo_first):
                        # result = min(a, b)
                        self.pending.append(a - o)
                        self.pending.append(b - o)
                    if (ll == a and rl == b and not lo_first) or (ll == b and rl == a and lo_first):
                        self.pending.append(o - a)
                        self.pending.append(o - b)
            return o
        if k in ("CXXMemberCallExpr", "CallExpr", "CXXOperatorCallExpr"):
            return self.call_value(e, st, pos)
        if k == "UnaryExprOrTypeTraitExpr":
            return None
        if k == "CXXThisExpr":
            return atom(("this",))
        if k == "CXXConstructExpr" and len(c) == 1:
            return self.lin(c[0], st, pos)
        if k == "ArraySubscriptExpr":
            bt = facts.ty(f, c[0])
            P0, I = self.lin(c[0], st, pos), self.lin(c[1], st, pos)
            if P0 is not None and I is not None and is_ptr(bt) and ((bt.get("to") or {}).get("const")):
                P = P0 + I.scale(self.elem_size(bt))
                if not P.mentions(lambda a: a[0] == "av"):
                    a = ("mem", repr(P), tuple(P.atoms()))
                    t = facts.ty(f, e)
                    if is_int(t) and is_unsigned(t) and t.get("w", 64) <= 16:
                        self.ub[a] = (1 << t["w"]) - 1
                    elif is_int(t) and not is_unsigned(t):
                        self.signed.add(a)
                    return atom(a)
            return self.opaque(e, "idx")
        return None

    def elem_size(self, t):
        to = (t or {}).get("to") or {}
        if to.get("k") in ("int", "bool", "enum") and to.get("w"):
            return max(1, to["w"] // 8)
        if to.get("k") == "rec" and to.get("size"):
            return to["size"]
        if to.get("k") == "ptr":
            return 8
        return 1

    def opaque(self, e, tag):
        a = ("ld", str(e["id"]), tag)
        t = facts.ty(self.f, e)
        if is_int(t):
            if not is_unsigned(t):
                self.signed.add(a)
            elif t.get("w") and t["w"] <= 16:
                self.ub[a] = (1 << t["w"]) - 1
        self.fresh.add(a)
        return atom(a)

    def member_returned(self, call):
        """`recv.acc()` where acc's body is `return <member>;` -> canonical text `recv.<member>` (or None)"""
        g_ = self.db.fn(call.get("callee")) if call.get("callee") else None
        r = cfg.receiver(call)
        if g_ is None or r is None or cfg.args(call) or not g_.get("body"):
            return None
        st_ = g_["body"].get("c", [])
        if len(st_) != 1 or st_[0]["k"] != "ReturnStmt" or not st_[0].get("c"):
            return None
        rx = facts.strip_all(st_[0]["c"][0])
        if rx["k"] == "MemberExpr" and rx.get("isfield") and rx.get("c") and strip(rx["c"][0])["k"] == "CXXThisExpr":
            recv = self.canon_name(strip(r))
            if recv == "this":
                return rx["member"]
            return "%s%s%s" % (recv, "->" if is_ptr(facts.ty(self.f, strip(r))) else ".", rx["member"])
        return None

    def canon_name(self, obj):
        """canonical text naming the object an expression designates (looks through reference locals bound once
        to a member-returning accessor and through such accessor calls)"""
        obj = strip(obj)
        if obj["k"] == "DeclRefExpr" and obj.get("var") and not obj.get("parm"):
            t = facts.ty(self.f, obj)
            init = self.ref_inits().get(obj["var"])
            if init is not None:
                x = facts.strip_all(init)
                if x["k"] == "CXXMemberCallExpr":
                    m = self.member_returned(x)
                    if m:
                        return m
                if x["k"] in ("DeclRefExpr", "MemberExpr"):
                    return self.canon_name(x)
        if obj["k"] == "CXXMemberCallExpr":
            m = self.member_returned(obj)
            if m:
                return m
        if obj["k"] == "UnaryOperator" and obj.get("op") == "*":
            return "(*%s)" % self.canon_name(obj["c"][0])
        return facts.expr_str(obj)

    def ref_inits(self):
        if getattr(self, "_refinit", None) is None:
            self._refinit = {}
            for n in facts.fn_nodes(self.f):
                if n["k"] == "VarDecl" and n.get("c"):
                    t = facts.tyi(self.f, n.get("t"))
                    if t and t.get("k") == "ref":
                        self._refinit[n["var"]] = n["c"][0]
        return self._refinit

    def vec_base(self, obj):
        """base atom of the storage of a std::vector<uint8_t>-like object expression"""
        t = facts.ty(self.f, obj)
        while t and t.get("k") == "ref":
            t = t.get("to")
        nm = (t or {}).get("name", "")
        if not (nm.startswith("std::vector<unsigned char") or nm.startswith("std::vector<char") or
                nm.startswith("std::array<unsigned char") or nm.startswith("std::basic_string<char")):
            return None
        name = self.canon_name(obj)
        b = ("vec", name)
        self.extent[b] = atom(("call", name + ".size()"))
        if nm.startswith("std::basic_string<char"):
            self.extent[b] = self.extent[b] + 1      # the terminating NUL of a std::string is readable
        return b

    def container_data(self, x, st):
        """&v[i] / &*v.begin() of a byte vector: base atom (extent v.size()) + i"""
        cs = x.get("c", [])
        if x.get("op") == "[]" and len(cs) == 3:
            b = self.vec_base(strip(cs[1]))
            i = self.lin(cs[2], st)
            if b is not None and i is not None:
                return atom(b) + i
        if x.get("op") == "*" and len(cs) == 2:
            y = strip(cs[1])
            if y["k"] == "CXXMemberCallExpr" and y.get("cname") in ("begin", "cbegin"):
                r = cfg.receiver(y)
                b = self.vec_base(strip(r)) if r is not None else None
                if b is not None:
                    return atom(b)
        return None

    def call_value(self, e, st, pos):
        f = self.f
        cname = e.get("cname")
        t = facts.ty(f, e)
        r = cfg.receiver(e) if e["k"] == "CXXMemberCallExpr" else None
        if r is not None:
            rt = facts.ty(f, r)
            rn = tname(rt)
            rs = strip(r)
            if rn == STREAM and rs["k"] == "DeclRefExpr" and rs.get("var") in st.streams:
                sv = rs["var"]
                base, ext = st.streams[sv]
                av = atom(("av", sv))
                if cname == "size" and not cfg.args(e):
                    return av
                if cname == "pointer":
                    return base + ext - av
            if rn == OSTREAM and rs["k"] == "DeclRefExpr" and rs.get("var") in st.streams:
                sv = rs["var"]
                base, ext = st.streams[sv]
                av = atom(("av", sv))
                if cname == "size" and not cfg.args(e):
                    return av
                if cname == "pointer":
                    return base + ext - av
            if cname == "size" and not cfg.args(e) and self.vec_base(rs) is not None:
                return atom(("call", self.vec_base(rs)[1] + ".size()"))
            if not cfg.args(e) and e.get("callee", "").endswith(" const") and self.db.fn(e.get("callee")) is not None:
                # accessor `return cast(member.size());`
                g2 = self.db.fn(e["callee"])
                st2 = g2["body"].get("c", []) if g2.get("body") else []
                if len(st2) == 1 and st2[0]["k"] == "ReturnStmt" and st2[0].get("c"):
                    rx = facts.strip_all(st2[0]["c"][0])
                    if rx["k"] == "CXXMemberCallExpr" and rx.get("cname") == "size" and not cfg.args(rx):
                        mo = strip(cfg.receiver(rx)) if cfg.receiver(rx) is not None else None
                        if mo is not None and mo["k"] == "MemberExpr" and mo.get("isfield") and mo.get("c") and \
                                strip(mo["c"][0])["k"] == "CXXThisExpr":
                            recv = self.canon_name(rs)
                            nm_ = mo["member"] if recv == "this" else "%s%s%s" % (recv, "->" if is_ptr(facts.ty(f, rs)) else ".", mo["member"])
                            a_ = ("call", nm_ + ".size()")
                            if is_int(t) and t.get("w", 64) < 64:
                                # the accessor narrows: equal when the size fits (buffers < 4 GiB)
                                self.ub.setdefault(a_, (1 << 32) - 1)
                            return atom(a_)
            if cname in ("begin", "end", "cbegin", "cend") and not cfg.args(e) and self.vec_base(rs) is not None:
                vb = self.vec_base(rs)
                if cname in ("begin", "cbegin"):
                    return atom(vb)
                return atom(vb) + atom(("call", vb[1] + ".size()"))
            # std::min / accessor calls on stable objects
            if is_int(t) or is_ptr(t):
                if not cfg.args(e) and (e.get("callee", "").endswith(" const")):
                    # accessor whose body is `return <data member>;` -> the member itself
                    g_ = self.db.fn(e.get("callee"))
                    if g_ is not None and g_.get("body") and len(g_["body"].get("c", [])) == 1 and \
                            g_["body"]["c"][0]["k"] == "ReturnStmt" and g_["body"]["c"][0].get("c") and \
                            facts.cval(g_["body"]["c"][0]["c"][0]) is not None:
                        return const(facts.cval(g_["body"]["c"][0]["c"][0]))
                    if g_ is not None and g_.get("body") and len(g_["body"].get("c", [])) == 1 and \
                            g_["body"]["c"][0]["k"] == "ReturnStmt" and g_["body"]["c"][0].get("c"):
                        rx = facts.strip_all(g_["body"]["c"][0]["c"][0])
                        if rx["k"] == "MemberExpr" and rx.get("isfield") and rx.get("c") and strip(rx["c"][0])["k"] == "CXXThisExpr":
                            recv = facts.expr_str(r)
                            nm = rx["member"] if recv == "this" else "%s%s%s" % (recv, "->" if is_ptr(facts.ty(f, strip(r))) else ".", rx["member"])
                            a = ("fld", nm)
                            ft = facts.ty(g_, rx)
                            if is_int(ft) and ft.get("w", 64) <= 16:
                                self.ub[a] = (1 << ft["w"]) - 1
                            return atom(a)
                    a = ("call", facts.expr_str(e))
                    if is_int(t) and not is_unsigned(t):
                        self.signed.add(a)
                    if is_int(t) and t.get("w", 64) <= 16:
                        self.ub[a] = (1 << t["w"]) - 1
                    # data_ptr()/begin() of an option / vector: a base with extent data_size()/size()
                    if cname in ("data",) and self.vec_base(strip(r)) is not None:
                        return atom(self.vec_base(strip(r)))
                    if cname in ("data_ptr",):
                        self.extent[a] = self.sibling_accessor(e, r, "data_size")
                    if self.db.fn(e.get("callee")) is not None:
                        from . import bits as _b
                        _b.DB[0] = self.db
                        mv = _b.Bounds(f, False).maxv(e)
                        if mv is not None and is_int(t):
                            self.ub[a] = mv
                    return atom(a)
        if e["k"] == "CallExpr" and cname in ("min", "max") and e.get("ext") and len(e["c"]) == 3:
            o = self.opaque(e, cname)
            a, b = self.lin(e["c"][1], st, pos), self.lin(e["c"][2], st, pos)
            if a is not None and b is not None:
                if cname == "min":
                    self.pending += [a - o, b - o]
                else:
                    self.pending += [o - a, o - b]
            return o
        if is_int(t) or is_ptr(t):
            return self.opaque(e, cname or "call")
        return None

    def sibling_accessor(self, e, r, name):
        """Lin value of `<receiver>.name()` for the receiver of call e (accessor inlined when trivial)"""
        f = self.f
        crec = e.get("crec")
        recv = facts.expr_str(r)
        for m in self.db.find_method(crec, name) if crec else []:
            g_ = self.db.fn(m["id"])
            if g_ is not None and g_.get("body") and len(g_["body"].get("c", [])) == 1 and \
                    g_["body"]["c"][0]["k"] == "ReturnStmt" and g_["body"]["c"][0].get("c"):
                rx = facts.strip_all(g_["body"]["c"][0]["c"][0])
                if rx["k"] == "MemberExpr" and rx.get("isfield") and rx.get("c") and strip(rx["c"][0])["k"] == "CXXThisExpr":
                    nm = rx["member"] if recv == "this" else "%s%s%s" % (recv, "->" if is_ptr(facts.ty(f, strip(r))) else ".", rx["member"])
                    a = ("fld", nm)
                    ft = facts.ty(g_, rx)
                    if is_int(ft) and ft.get("w", 64) <= 16:
                        self.ub[a] = (1 << ft["w"]) - 1
                    return atom(a)
        return atom(("call", facts.expr_str(e).replace("data_ptr", name)))

    def upper(self, L):
        """constant upper bound of Lin L from atom upper bounds, or None"""
        tot = L.k
        for a, c in L.t:
            if c > 0:
                if a not in self.ub:
                    return None
                tot += c * self.ub[a]
        return tot

    # ------------------------------------------------------------------ prover access
    def prove(self, G, st, depth=3):
        fs = list(st.facts) + list(self.pending) + list(getattr(self, "extra_facts", []) or [])
        # invariant: a stream never has more bytes left than its view holds
        for sv, (b, e) in st.streams.items():
            fs.append(e - atom(("av", sv)))
        p = Prover(fs, self.signed, self.ub)
        return p.prove(G, depth)

    # ------------------------------------------------------------------ dataflow
    def run(self):
        g = self.g
        init = self.initial()
        edge = {}                 # (pred, succ) -> state flowing along that edge
        inn = {g.entry: init}
        work = [g.entry]
        n_iter = 0
        self.fresh = set()
        self.pending = []
        self.incval = {}
        while work:
            n_iter += 1
            if n_iter > 1500:
                raise facts.AnalysisBroken("bounds analysis did not converge in %s" % self.f["id"])
            b = work.pop(0)
            st = inn[b].copy()
            blk = g.blocks[b]
            for i, eid in enumerate(blk["e"]):
                node = g.idx.get(eid)
                if node is not None:
                    st = self.transfer(node, st, (b, i))
            succs = blk["s"]
            if b in g.throws:
                continue
            if g.exit in [x for x in succs if x is not None]:
                last = g.idx.get(blk["e"][-1]) if blk["e"] else None
                self.check_exit_invariants(st, last or self.f["body"])
                self.exit_states.append(st.copy())
            for k_, s in enumerate(succs):
                if s is None:
                    continue
                st2 = st
                if len(succs) == 2 and blk.get("cond") is not None and blk.get("termk") != "SwitchStmt":
                    cnode = g.idx.get(blk["cond"])
                    if cnode is not None:
                        st2 = self.assume(st.copy(), cnode, k_ == 0)
                ek = (b, k_, s)
                if ek in edge and edge[ek].key() == st2.key():
                    continue
                edge[ek] = st2
                # in-state of s = join over the latest states of all its incoming edges
                ins = [v for (p_, kk, s_), v in sorted(edge.items(), key=lambda kv: (kv[0][0], kv[0][1])) if s_ == s]
                if s in self.loop_heads() and s in inn:
                    # loop heads only ever lose facts (monotone, guarantees termination): fold the incoming
                    # edges into the previous state, which already carries the loop's phi values
                    new = inn[s]
                    for other in ins:
                        new = self.join(new, other, s)
                else:
                    new = ins[0]
                    for other in ins[1:]:
                        new = self.join(new, other, s)
                if s not in inn or inn[s].key() != new.key():
                    inn[s] = new
                    if s not in work:
                        work.append(s)
        self.inn = inn
        return self

    def elem_size_of_var(self, var):
        for n in facts.fn_nodes(self.f):
            if n["k"] == "VarDecl" and n.get("var") == var:
                return self.elem_size(facts.tyi(self.f, n.get("t")))
        for p_ in self.f["params"]:
            if p_["var"] == var:
                return self.elem_size(facts.tyi(self.f, p_["t"]))
        return 1

    def project(self, G, X, Y, keep=()):
        """weaken fact G (valid on side X) to atoms that side Y also knows: atoms local to X are replaced by
        their constant bounds on X (upper bound for positive coefficients, lower bound for negative ones)"""
        known = set(keep)
        for F in Y.facts:
            known.update(F.atoms())
        for L in Y.sym.values():
            known.update(L.atoms())
        out = G
        for a_, c_ in G.t:
            if a_ in known or a_[0] in ("p0", "call", "fld", "vec", "av", "ext", "se", "sb", "p0off", "glob", "this"):
                continue
            bound = None
            if c_ > 0:
                # need an upper bound of a_
                if a_ in self.ub:
                    bound = self.ub[a_]
                for F in X.facts:
                    ft = F.terms()
                    if len(ft) == 1 and ft.get(a_) == -1 and F.k >= 0:
                        bound = F.k if bound is None else min(bound, F.k)
            else:
                bound = 0 if a_ not in self.signed else None
                for F in X.facts:
                    ft = F.terms()
                    if len(ft) == 1 and ft.get(a_) == 1 and F.k <= 0:
                        bound = -F.k if bound is None else max(bound, -F.k)
            if bound is None:
                return None
            out = out.subst(a_, const(bound))
        return out if out != G else None

    def loop_heads(self):
        if getattr(self, "_lh", None) is not None:
            return self._lh
        g = self.g
        heads = set()
        color = {}
        stack = [(g.entry, iter([x for x in g.blocks[g.entry]["s"] if x is not None]))]
        color[g.entry] = 1
        while stack:
            b, it = stack[-1]
            nxt = next(it, None)
            if nxt is None:
                color[b] = 2
                stack.pop()
                continue
            if color.get(nxt) == 1:
                heads.add(nxt)
            elif nxt not in color:
                color[nxt] = 1
                stack.append((nxt, iter([x for x in g.blocks[nxt]["s"] if x is not None])))
        self._lh = heads
        return heads

    def base_of(self, L):
        bs = [x for x in L.atoms() if x in self.extent and L.terms().get(x) == 1]
        return bs[0] if len(bs) == 1 else None

    def join(self, a, b, blk):
        sym = {}
        kill = set()
        based = {}     # phi atom -> base atom (the phi then stands for the offset from that base)
        for v in set(a.sym) | set(b.sym):
            if v in a.sym and v in b.sym:
                if a.sym[v] == b.sym[v]:
                    sym[v] = a.sym[v]
                else:
                    pa = ("phi", blk, v)
                    ba, bb = self.base_of(a.sym[v]), self.base_of(b.sym[v])
                    if ba is not None and ba == bb:
                        based[pa] = ba
                        sym[v] = atom(ba) + atom(pa)
                    else:
                        sym[v] = atom(pa)
                    kill.add(pa)
                    if self.var_signed.get(v):
                        self.signed.add(pa)
            # variable defined on one path only: not available after the join

        def val(st_, pa):
            """value the phi atom stands for on side st_ (None when that side already carries the phi)"""
            L = st_.sym.get(pa[2])
            if L is None:
                return None
            if pa in based:
                L = L - atom(based[pa])
            return L

        def carries(st_, pa):
            L = val(st_, pa)
            return L is not None and L == atom(pa)

        fa = frozenset(x for x in a.facts if not x.mentions(lambda at: at in kill and not carries(a, at)))
        fb = frozenset(x for x in b.facts if not x.mentions(lambda at: at in kill and not carries(b, at)))
        streams = {}
        for s in set(a.streams) & set(b.streams):
            if a.streams[s] == b.streams[s]:
                streams[s] = a.streams[s]
        mods = set(x for x in (a.mods & b.mods) if not x[0].mentions(lambda at: at in kill and not (carries(a, at) and carries(b, at))))
        for pa in kill:
            LA, LB = val(a, pa), val(b, pa)
            if LA is None or LB is None:
                continue
            for (X, LX, Y, LY) in ((a, LA, b, LB), (b, LB, a, LA)):
                if LX == atom(pa):
                    for (L, m) in X.mods:
                        if L.mentions(lambda at: at == pa) and congruent(L.subst(pa, LY), m, Y.mods | frozenset([(L, m)])):
                            mods.add((L, m))
            if LA != atom(pa) and LB != atom(pa):
                d = LB - LA
                if d.is_const() and d.k != 0:
                    mods.add((atom(pa) - LA, abs(d.k)))
        out = set(fa & fb)
        # relational facts about merged variables: F holds on side X in terms of the variable's value there;
        # keep it (in terms of the phi atom) when it also holds on the other side
        for pa in kill:
            LA, LB = val(a, pa), val(b, pa)
            if LA is None or LB is None:
                continue
            if LA == atom(pa) or LB == atom(pa):
                side, other = (a, b) if LA == atom(pa) else (b, a)
                # every phi that `side` already carries is replaced by the value it has on the other side
                submap = {}
                for pq in kill:
                    vq_s, vq_o = val(side, pq), val(other, pq)
                    if vq_s is not None and vq_o is not None and vq_s == atom(pq):
                        submap[pq] = vq_o
                for F in side.facts:
                    if F.mentions(lambda at: at == pa) and F not in out:
                        G = F
                        for pq, vq in submap.items():
                            G = G.subst(pq, vq)
                        if self.prove(G, other):
                            out.add(F)
                continue
            for (X, LX, Y, LY) in ((a, LA, b, LB), (b, LB, a, LA)):
                for t, ct in LX.t:
                    if ct not in (1, -1):
                        continue
                    rest = LX - Lin({t: ct}, 0)
                    repl = (atom(pa) - rest).scale(ct)      # t == ct*(phi - rest)
                    for F in X.facts:
                        if not F.mentions(lambda at: at == t):
                            continue
                        G = F.subst(t, repl)
                        if G in out:
                            continue
                        if self.prove(G.subst(pa, LY), Y):
                            out.add(G)
                        # also without the atoms that only side X knows (replaced by their constant bounds there)
                        G2 = self.project(G, X, Y, keep=(pa,))
                        if G2 is not None and G2 not in out and self.prove(G2.subst(pa, LY), Y):
                            out.add(G2)
            # template facts: phi <= remaining bytes of a stream / <= a length parameter / <= extent of its base
            cands = [atom(("av", sv)) - atom(pa) for sv in streams]
            cands += [atom(("p0", lv)) - atom(pa) for lv in self.pairs.values()]
            if pa in based:
                cands.append(self.extent[based[pa]] - atom(pa))
                for pb in kill:
                    if pb not in based and pb != pa:
                        LA2, LB2 = val(a, pb), val(b, pb)
                        if LA2 is not None and LB2 is not None:
                            # pointer offset moves together with a counter:  off == k * counter
                            es = self.elem_size_of_var(pa[2])
                            for G3 in (atom(pa) - atom(pb).scale(es), atom(pb).scale(es) - atom(pa)):
                                if G3 not in out and self.prove(G3.subst(pa, LA).subst(pb, LA2), a) and \
                                        self.prove(G3.subst(pa, LB).subst(pb, LB2), b):
                                    out.add(G3)
                            G2 = self.extent[based[pa]] - atom(pa) - atom(pb)
                            if G2 not in out and self.prove(G2.subst(pa, LA).subst(pb, LA2), a) and \
                                    self.prove(G2.subst(pa, LB).subst(pb, LB2), b):
                                out.add(G2)
            for G in cands:
                if G not in out and self.prove(G.subst(pa, LA), a) and self.prove(G.subst(pa, LB), b):
                    out.add(G)
            ua, ub_ = self.upper(LA), self.upper(LB)
            if ua is not None and ub_ is not None and not (LA.is_const() and LB.is_const()):
                out.add(const(max(ua, ub_)) - atom(pa))
            # constants on both sides: phi bounded by both
            if LA.is_const() and LB.is_const():
                out.add(atom(pa) - min(LA.k, LB.k))
                out.add(const(max(LA.k, LB.k)) - atom(pa))
        snaps = dict((k_, v_) for k_, v_ in a.snaps.items() if b.snaps.get(k_) == v_)
        return State(frozenset(out), sym, streams, frozenset(mods), snaps)

    var_signed = {}

    # ------------------------------------------------------------------ guards
    def assume(self, st, cnode, pol):
        new = set(st.facts)
        self.pending = []
        for op, l, r in cond.facts_of(self.f, cnode, pol):
            if r is None:
                x = strip(l)
                t = facts.ty(self.f, x)
                # stream used as bool / can_read(n) / unsigned value used as bool
                if x["k"] == "CXXMemberCallExpr":
                    rc = cfg.receiver(x)
                    rn = tname(facts.ty(self.f, rc)) if rc is not None else None
                    rs = strip(rc) if rc is not None else None
                    if rs is not None and rs["k"] == "CXXThisExpr" and self.f.get("rec") in (STREAM, OSTREAM) and \
                            x.get("cname") == "can_read" and cfg.args(x):
                        n_ = self.lin(cfg.args(x)[0], st)
                        if n_ is not None:
                            new.add(atom(("fld", "size_")) - n_ if op == "true" else n_ - atom(("fld", "size_")) - 1)
                        continue
                    if rn in (STREAM, OSTREAM) and rs["k"] == "DeclRefExpr" and rs.get("var") in st.streams:
                        av = atom(("av", rs["var"]))
                        if x.get("cname") == "can_read" and cfg.args(x):
                            n = self.lin(cfg.args(x)[0], st)
                            if n is not None:
                                if op == "true":
                                    new.add(av - n)
                                else:
                                    new.add(n - av - 1)
                            continue
                        if x.get("cname") == "operator bool":
                            new.add(av - 1 if op == "true" else av.scale(-1))
                            continue
                    if x.get("cname") == "empty" and not cfg.args(x):
                        sz = atom(("call", facts.expr_str(x).replace("empty", "size")))
                        new.add(sz.scale(-1) if op == "true" else sz - 1)
                        continue
                if x["k"] == "DeclRefExpr" and tname(t) in (STREAM, OSTREAM) and x.get("var") in st.streams:
                    av = atom(("av", x["var"]))
                    new.add(av - 1 if op == "true" else av.scale(-1))
                    continue
                if x["k"] == "CXXMemberCallExpr" or is_int(t) or is_ptr(t):
                    L = self.lin(l, st)
                    if L is not None and (is_unsigned(t) or is_ptr(t)):
                        new.add(L - 1 if op == "true" else L.scale(-1))
                continue
            l0 = strip(l)
            if op == "==" and l0["k"] == "BinaryOperator" and l0["op"] == "%" and facts.cval(r) == 0:
                mm = facts.cval(l0["c"][1])
                base = self.lin(l0["c"][0], st)
                if mm and base is not None:
                    st.mods = frozenset(set(st.mods) | set([(base, mm)]))
            a, b = self.lin(l, st), self.lin(r, st)
            if a is None or b is None:
                continue
            if op in ("<", ">", "!="):
                D = (b - a) if op == "<" else (a - b)
                for m in sorted(set(mm for _, mm in st.mods), reverse=True):
                    if m > 1 and congruent(D, m, st.mods):
                        if op != "!=":
                            new.add(D - m)
                        break
            if op == "<":
                new.add(b - a - 1)
            elif op == "<=":
                new.add(b - a)
            elif op == ">":
                new.add(a - b - 1)
            elif op == ">=":
                new.add(a - b)
            elif op == "==":
                new.add(a - b)
                new.add(b - a)
            elif op == "!=":
                # unsigned x != 0  ->  x >= 1 ; pointer p != end with p <= end known -> p < end
                d = a - b
                if self.prove(d, st):
                    new.add(d - 1)
                elif self.prove(d.scale(-1), st):
                    new.add(d.scale(-1) - 1)
        for p in self.pending:
            new.add(p)
        self.pending = []
        st.facts = frozenset(new)
        return st

    # ------------------------------------------------------------------ state updates
    def kill_atoms(self, st, pred):
        st.facts = frozenset(x for x in st.facts if not x.mentions(pred))
        for v in list(st.sym):
            if st.sym[v].mentions(pred):
                st.sym[v] = atom(("ld", "k" + str(v), "killed"))
                self.fresh.add(st.sym[v].atoms()[0])
        return st

    def consume(self, st, sv, n, node_id=None):
        """stream sv advances by Lin n (n None = unknown amount)"""
        av = ("av", sv)
        if n is None:
            base, ext = st.streams[sv]
            self._ghost = getattr(self, "_ghost", 0) + 1
            gh = ("ld", "g%s" % (node_id if node_id is not None else self._ghost), "avold:" + sv.split("#")[0])
            self.fresh.add(gh)
            # the old remaining-bytes value lives on as a ghost; the new one is not larger
            st.facts = frozenset(x.subst(av, atom(gh)) for x in st.facts if not x.mentions(lambda a: a == gh))
            for v in st.sym:
                st.sym[v] = st.sym[v].subst(av, atom(gh))
            for s_ in st.streams:
                b_, e_ = st.streams[s_]
                st.streams[s_] = (b_.subst(av, atom(gh)), e_.subst(av, atom(gh)))
            for k_ in list(st.snaps):
                st.snaps[k_] = st.snaps[k_].subst(av, atom(gh))
            base, ext = st.streams[sv]
            st.facts = frozenset(set(st.facts) | set([ext - atom(av), atom(gh) - atom(av)]))
            return st
        if n.mentions(lambda a: a == av):
            # the amount itself depends on the remaining bytes (e.g. skip(stream.size() - k)):
            # freeze the old value in a ghost, then av_new == ghost - n[ghost]
            self._ghost = getattr(self, "_ghost", 0) + 1
            gh = ("ld", "g%s" % (node_id if node_id is not None else self._ghost), "avold:" + sv.split("#")[0])
            self.fresh.add(gh)
            st.facts = frozenset(x.subst(av, atom(gh)) for x in st.facts if not x.mentions(lambda a: a == gh))
            for v in st.sym:
                st.sym[v] = st.sym[v].subst(av, atom(gh))
            for s_ in st.streams:
                b_, e_ = st.streams[s_]
                st.streams[s_] = (b_.subst(av, atom(gh)), e_.subst(av, atom(gh)))
            for k_ in list(st.snaps):
                st.snaps[k_] = st.snaps[k_].subst(av, atom(gh))
            n2 = n.subst(av, atom(gh))
            new = atom(gh) - n2
            st.facts = frozenset(set(st.facts) | set([atom(av) - new, new - atom(av)]))
            return st
        repl = atom(av) + n
        for k_ in list(st.snaps):
            st.snaps[k_] = st.snaps[k_].subst(av, repl)
        st.facts = frozenset(x.subst(av, repl) for x in st.facts)
        for v in st.sym:
            st.sym[v] = st.sym[v].subst(av, repl)
        for s in st.streams:
            b, e = st.streams[s]
            st.streams[s] = (b.subst(av, repl), e.subst(av, repl))
        return st

    def set_var(self, st, var, L, node):
        if L is None:
            L = atom(("ld", str(node["id"]), "asg"))
        elif L.mentions(lambda a: a[0] == "av"):
            # a value taken from a moving cursor: snapshot it in a stable atom so that both arms of a later
            # branch keep the same symbolic value (the defining equalities move with the cursor instead)
            snap = ("ld", str(node["id"]), "snap:" + var.split("#")[0])
            self.fresh.add(snap)
            B = self.base_of(L)
            val = L - atom(B) if B is not None else L
            st.facts = frozenset(x for x in st.facts if not x.mentions(lambda a: a == snap))
            st.snaps.pop(snap, None)
            self.pending += [atom(snap) - val, val - atom(snap)]
            # relations between snapshots that do not depend on where the cursor is now
            for s2, v2 in st.snaps.items():
                for sg in (1, -1):
                    comb = val + v2.scale(sg)
                    if not comb.mentions(lambda a: a[0] == "av"):
                        rel = atom(snap) + atom(s2).scale(sg) - comb
                        self.pending += [rel, rel.scale(-1)]
            st.snaps[snap] = val
            L = (atom(B) + atom(snap)) if B is not None else atom(snap)
        st.sym[var] = L
        return st

    def flush_pending(self, st):
        if self.pending:
            st.facts = frozenset(set(st.facts) | set(self.pending))
            self.pending = []
        ef = getattr(self, "extra_facts", None)
        if ef:
            st.facts = frozenset(set(st.facts) | set(ef))
            self.extra_facts = []
        return st

    # ------------------------------------------------------------------ obligations
    def oblige(self, node, kind, ptr, n, st, text, write=False):
        """n bytes are accessed through pointer value `ptr` (Lin)"""
        if ptr is None or n is None:
            self.record(node, kind, text, "undecided", "pointer or length expression outside the linear language")
            return
        bases = [a for a in ptr.atoms() if a in self.extent or a[0] in ("sb",)]
        if len(bases) != 1 or ptr.terms().get(bases[0]) != 1:
            # pointer into an object we do not track (member array, local) -> not a buffer access we can judge
            self.record(node, kind, text, "undecided", "pointer %s is not derived from a tracked buffer" % ptr)
            return
        B = bases[0]
        ext = self.extent[B]
        off = ptr - atom(B)
        if off.mentions(lambda a: a[0] == "ld" and len(a) > 2 and a[2] in ("sprintf", "snprintf", "vsprintf")):
            self.record(node, kind, text, "undecided", "offset is the return value of %s" % [a for a in off.atoms() if a[0] == "ld"][0][2])
            return
        need_hi = ext - off - n
        ok_lo = self.prove(off, st)
        ok_hi = self.prove(need_hi, st)
        ok_n = self.prove(n, st)
        if ok_lo and ok_hi and ok_n:
            self.record(node, kind, text, "ok", "%s bytes at offset %s within extent %s" % (n, off, ext))
        else:
            if B[0] == "p0" and B[1] not in self.pairs and self.extent[B].mentions(lambda a: a[0] == "xext"):
                if self.export and ok_lo:
                    # requirement on the caller: `off + n` bytes must be readable behind parameter B
                    need = off + n
                    if not need.mentions(lambda a: a[0] not in ("p0",)):
                        pi = [i for i, p in enumerate(self.f["params"]) if p["var"] == B[1]]
                        if pi:
                            self.requirements.append((pi[0], need))
                            self.record(node, kind, text, "ok", "exported as a requirement on the callers: %s bytes behind %s" % (need, atom_str(B)))
                            return
                self.record(node, kind, text, "undecided", "extent of %s unknown" % atom_str(B))
                return
            nonlin = lambda L_: L_.mentions(lambda a: a[0] == "phi") and \
                any(F.mentions(lambda a: a[0] == "ld" and len(a) > 2 and a[2] == "bits") for F in st.facts)
            if (not ok_hi or not ok_lo or not ok_n) and (nonlin(off) or nonlin(n)):
                self.record(node, kind, text, "undecided",
                            "loop-carried offset whose bound comes from a division/modulo (%s bytes at offset %s): outside the "
                            "linear language" % (n, off))
                return
            if self.can_export_state():
                goals = [self.relax_goal(G_, st) for G_, okk_ in ((off, ok_lo), (need_hi, ok_hi), (n, ok_n)) if not okk_]
                if all(not G_.mentions(lambda a: a[0] not in ("call", "fld", "p0")) for G_ in goals):
                    for G_ in goals:
                        self.state_requirements.append((G_, text))
                        self.req_nodes[(repr(G_), text)] = node["id"]
                    self.record(node, kind, text, "ok", "exported as a requirement on the callers: %s" %
                                " and ".join("%s >= 0" % G_ for G_ in goals))
                    return
            why = []
            if not ok_hi:
                why.append("cannot show %s <= %s (bytes available) from the guards in force: {%s}" %
                           (n, ext - off, ", ".join("%s>=0" % x for x in sorted(st.facts, key=repr)[:8])))
            if not ok_lo:
                why.append("offset %s may be negative" % off)
            if not ok_n:
                why.append("length %s may be negative (unsigned wrap)" % n)
            self.record(node, kind, text, "violation", "; ".join(why))

    def relax_goal(self, G, st):
        """A goal G >= 0 that mentions a bounded local quantity x (a loop counter with `x <= U` / `x >= L` among the facts)
        follows from the goal with x replaced by its worst-case bound: that stronger goal mentions only what a caller
        can know, so it can be handed on.  Returns G itself when nothing can be eliminated."""
        out = G
        for a, c in G.t:
            if a[0] in ("call", "fld", "p0"):
                continue
            best = None
            for F in st.facts:
                ft = dict(F.t)
                if len(ft) != 1 or a not in ft:
                    continue
                k_ = ft[a]
                # F = k_*a + F.k >= 0
                if c < 0 and k_ == -1:          # a <= F.k : worst case for a negative coefficient is the upper bound
                    best = F.k if best is None else min(best, F.k)
                if c > 0 and k_ == 1:           # a >= -F.k
                    best = -F.k if best is None else max(best, -F.k)
            if best is None:
                return G
            out = out.subst(a, const(best))
        return out

    def export_goals(self, node, text, goals):
        """a private helper may leave goals over its parameters, members and container sizes to its callers: they become
        state requirements checked at every call site.  True when all goals could be handed on."""
        if not goals or not self.can_export_state():
            return False
        if not all(not G_.mentions(lambda a: a[0] not in ("call", "fld", "p0")) for G_ in goals):
            return False
        for G_ in goals:
            self.state_requirements.append((G_, text))
            self.req_nodes[(repr(G_), text)] = node["id"]
        return True

    def can_export_state(self):
        """private member functions and helpers local to a source file may rely on their callers' guards"""
        f = self.f
        if self.depth > 2:
            return False
        if f.get("access") == "private":
            return True
        rec = self.db.records.get(f.get("rec") or "")
        if rec is not None and rec["file"].startswith("src/"):
            return True
        if f["id"].endswith(".cpp") and f["file"].startswith("src/"):
            return True      # internal linkage (id carries the file suffix)
        if not f.get("rec") and f["file"].startswith("src/") and not name_in_headers(self.db, f.get("name") or ""):
            return True      # free function defined in a source file and named in no public header: only that file calls it
        return False

    STATE_REQ_CACHE = {}

    def callee_state_requirements(self, callee):
        key = (self.db.key, callee)
        if key in FnBounds.STATE_REQ_CACHE:
            return FnBounds.STATE_REQ_CACHE[key]
        g = self.db.fn(callee)
        res = None
        if g is not None and g.get("cfg") and self.depth < 3:
            FnBounds.STATE_REQ_CACHE[key] = None
            try:
                b = FnBounds(self.db, g, depth=self.depth + 1)
                if b.can_export_state():
                    b.run()
                    # a requirement raised by one visit of a site whose final verdict is not `ok` (a later loop iteration
                    # left the linear language: the site is reported undecided there) does not speak for the site
                    res = ([r_ for r_ in b.state_requirements
                            if b.req_nodes.get((repr(r_[0]), r_[1])) is None or
                            getattr(b.obls.get(b.req_nodes[(repr(r_[0]), r_[1])]), "verdict", "ok") == "ok"], g)
            except Exception:
                res = None
        FnBounds.STATE_REQ_CACHE[key] = res
        return res

    def check_state_requirements(self, n, args, st, pos):
        callee = n.get("callee")
        if not callee or n.get("ext"):
            return
        r = self.callee_state_requirements(callee)
        if not r or not r[0]:
            return
        reqs, g_ = r
        # how the callee's names translate here: parameters -> argument expressions, members -> same object
        ren = {}
        argl = {}
        for j, pp in enumerate(g_["params"]):
            if j < len(args) and isinstance(args[j], dict):
                ren[pp["name"]] = self.canon_name(strip(args[j]))
                argl[("p0", pp["var"])] = self.lin(args[j], st, pos)
        recv = cfg.receiver(n) if n["k"] == "CXXMemberCallExpr" else None
        rprefix = ""
        if recv is not None and strip(recv)["k"] != "CXXThisExpr":
            rprefix = self.canon_name(strip(recv)) + ("->" if is_ptr(facts.ty(self.f, strip(recv))) else ".")
        import re as _re
        seen = set()
        for G, text in reqs:
            H = const(G.k)
            okk = True
            for a, c in G.t:
                if a[0] == "p0":
                    v = argl.get(a)
                    if v is None:
                        okk = False
                        break
                    H = H + v.scale(c)
                else:
                    nm = a[1]
                    m = _re.match(r"^([A-Za-z_]\w*)(.*)$", nm)
                    if m and m.group(1) in ren:
                        nm = ren[m.group(1)] + m.group(2)
                    elif rprefix:
                        nm = rprefix + nm
                    na = (a[0], nm)
                    if a in self.ub:
                        self.ub.setdefault(na, self.ub[a])
                    H = H + atom(na).scale(c)
            key = (repr(H))
            if key in seen:
                continue
            seen.add(key)
            fake = {"id": "req:%s:%s" % (n["id"], key), "l": n.get("l", 0), "k": "Requirement"}
            txt = "%s() requires %s >= 0 [%s]" % (g_["name"], G, text[:50])
            if not okk:
                self.record(fake, "requirement", txt, "undecided", "cannot express the callee's requirement at this call")
            elif self.prove(H, st):
                self.record(fake, "requirement", txt, "ok", "%s >= 0 holds here" % H)
            elif self.can_export_state() and not H.mentions(lambda a: a[0] not in ("call", "fld", "p0")):
                self.state_requirements.append((H, txt))
                self.record(fake, "requirement", txt, "ok", "passed on to this function's own callers")
            else:
                self.record(fake, "requirement", txt, "violation",
                            "callee %s relies on %s >= 0 which does not hold at this call; facts: {%s}" %
                            (g_["name"], H, ", ".join("%s>=0" % x for x in sorted(st.facts, key=repr)[:8])))

    def is_exported(self, B):
        return self.export and B[0] == "p0"

    def record(self, node, kind, text, verdict, why):
        old = self.obls.get(node["id"])
        if old is not None and old.verdict == "violation" and verdict != "violation":
            return
        if old is not None and old.verdict == "undecided" and verdict == "ok":
            return
        self.evals = getattr(self, "evals", 0) + 1
        self.obls[node["id"]] = Obligation(node, kind, text, verdict, why)

    # ------------------------------------------------------------------ transfer
    def transfer(self, n, st, pos):
        k = n["k"]
        f = self.f
        self.pending = []
        if n["id"] in self.init_member:
            # constructor initialiser of a scalar member: member == value
            fa = ("fld", self.init_member[n["id"]])
            t = facts.ty(f, n)
            fake = {"id": n["id"], "k": "MemberExpr", "isfield": True, "member": self.init_member[n["id"]], "t": n.get("t"),
                    "c": [{"id": -1, "k": "CXXThisExpr", "t": None}]}
            n0 = strip(n)
            if n0["k"] in ("CXXConstructExpr",) and (facts.ty(f, n0) or {}).get("k") == "rec" and self.vec_base(fake) is not None:
                a_ = n0.get("c", [])
                sz = ("call", self.init_member[n["id"]] + ".size()")
                N = None
                if len(a_) >= 1 and is_int(facts.ty(f, strip(a_[0]))):
                    N = self.lin(a_[0], st, pos)
                elif len(a_) == 1:
                    src = self.vec_base(strip(a_[0]))
                    if src is not None:
                        N = atom(("call", src[1] + ".size()"))
                elif len(a_) == 0:
                    N = const(0)
                self.kill_atoms(st, lambda a: a == sz)
                if N is not None:
                    st.facts = frozenset(set(st.facts) | set([atom(sz) - N, N - atom(sz)]))
            elif is_int(t) or is_ptr(t) or k == "ImplicitValueInitExpr":
                R = const(0) if k == "ImplicitValueInitExpr" else self.lin(n, st, pos)
                self.kill_atoms(st, lambda a: a == fa)
                if R is not None:
                    st.facts = frozenset(set(st.facts) | set([atom(fa) - R, R - atom(fa)]))
        if k in ("DeclStmt", "VarDecl"):
            for ch in (n.get("c", []) if k == "DeclStmt" else [n]):
                if ch.get("k") != "VarDecl":
                    continue
                t = facts.tyi(f, ch.get("t"))
                var = ch["var"]
                tn = tname(t)
                if tn in (STREAM, OSTREAM) and t.get("k") != "ref":
                    self.decl_stream(ch, st)
                elif is_int(t) or is_ptr(t):
                    if is_int(t) and not is_unsigned(t):
                        self.var_signed[var] = True
                    if ch.get("c"):
                        L = self.lin(ch["c"][0], st, pos)
                        if L is not None and is_int(t) and is_unsigned(t) and t.get("w", 64) < 64:
                            # implicit conversion at initialisation may truncate
                            it = facts.ty(f, ch["c"][0])
                            if is_int(it) and it.get("w", 0) > t.get("w", 64):
                                mx = self.upper(L)
                                if mx is None or mx >= (1 << t["w"]):
                                    L = None
                        self.set_var(st, var, L, ch)
                        a0 = st.sym[var].atoms()
                        if is_int(t) and t.get("w", 64) <= 16 and len(a0) == 1 and st.sym[var].terms()[a0[0]] == 1 \
                                and st.sym[var].k == 0 and a0[0][0] == "ld":
                            self.ub[a0[0]] = min(self.ub.get(a0[0], 1 << 62), (1 << t["w"]) - 1)
                    else:
                        self.set_var(st, var, None, ch)
                elif t and t.get("k") == "ref":
                    pass
                elif t and t.get("k") == "rec" and ch.get("c") and (t.get("name") or "").startswith("Tins::PDUOption<"):
                    # option returned by RadioTap::do_find_option(FLAG): size known from the shared field table
                    for x in facts.walk(ch["c"][0]):
                        if x["k"] == "CXXMemberCallExpr" and x.get("cname") == "do_find_option" and \
                                x.get("crec") == "Tins::RadioTap" and len(cfg.args(x)) == 1:
                            fl = facts.cval(cfg.args(x)[0])
                            tbl = radiotap_option_sizes(self.db)
                            if tbl is not None and fl in tbl:
                                fa = ("fld", ch["name"] + ".real_size_")
                                self.kill_atoms(st, lambda a: a == fa)
                                self.pending += [atom(fa) - tbl[fl], const(tbl[fl]) - atom(fa)]
                            break
                elif t and t.get("k") == "rec" and ch.get("c"):
                    # byte vector constructed with a size:  vector<uint8_t> v(n) / v(n, x) / v(first, last)
                    init = strip(ch["c"][0])
                    fake = {"id": ch["id"], "k": "DeclRefExpr", "name": ch["name"], "var": var, "t": ch.get("t")}
                    if init["k"] in ("CXXConstructExpr", "CXXTemporaryObjectExpr") and self.vec_base(fake) is not None:
                        a_ = init.get("c", [])
                        sz = ("call", ch["name"] + ".size()")
                        self.kill_atoms(st, lambda a: a == sz)
                        N = None
                        if len(a_) >= 1 and is_int(facts.ty(f, strip(a_[0]))) and not (len(a_) >= 2 and is_ptr(facts.ty(f, strip(a_[1])))):
                            N = self.lin(a_[0], st, pos)
                        elif len(a_) >= 2 and is_ptr(facts.ty(f, strip(a_[0]))) and is_ptr(facts.ty(f, strip(a_[1]))):
                            A_, B_ = self.lin(a_[0], st, pos), self.lin(a_[1], st, pos)
                            if A_ is not None and B_ is not None:
                                N = B_ - A_
                        elif len(a_) == 0 or (len(a_) == 1 and strip(a_[0])["k"] == "CXXDefaultArgExpr"):
                            N = const(0)
                        if N is not None:
                            self.pending += [atom(sz) - N, N - atom(sz)]
            return self.flush_pending(st)
        if k in ("BinaryOperator", "CompoundAssignOperator") and n.get("op") in ("=", "+=", "-="):
            l = strip(n["c"][0])
            if l["k"] == "DeclRefExpr" and l.get("var") and (is_int(facts.ty(f, l)) or is_ptr(facts.ty(f, l))):
                var = l["var"]
                R = self.lin(n["c"][1], st, pos)
                tl = facts.ty(f, l)
                if n["op"] == "=":
                    self.set_var(st, var, R, n)
                else:
                    cur = st.sym.get(var)
                    if cur is not None and R is not None:
                        if is_ptr(tl):
                            R = R.scale(self.elem_size(tl))
                        new = cur + R if n["op"] == "+=" else cur - R
                        if n["op"] == "-=" and is_unsigned(tl) and not self.prove(new, st):
                            new = None
                        self.set_var(st, var, new, n)
                    else:
                        self.set_var(st, var, None, n)
                return self.flush_pending(st)
            if l["k"] == "MemberExpr" and l.get("isfield"):
                fa = ("fld", facts.expr_str(l))
                if n["op"] == "-=" and f.get("rec") in (STREAM, OSTREAM) and fa == ("fld", "size_"):
                    # the cursor's remaining-bytes counter must never wrap
                    Rm = self.lin(n["c"][1], st, pos)
                    if Rm is not None and self.prove(atom(fa) - Rm, st):
                        self.record(n, "cursor-underflow", facts.expr_str(n), "ok", "%s <= size_ by the dominating guard" % Rm)
                    else:
                        self.record(n, "cursor-underflow", facts.expr_str(n), "violation",
                                    "size_ -= %s is not dominated by a check that %s <= size_: the remaining-bytes counter wraps "
                                    "and every later bounds check passes" % (Rm, Rm))
                R = self.lin(n["c"][1], st, pos) if n["op"] == "=" else None
                self.kill_atoms(st, lambda a: a == fa or (a[0] == "call" and "." not in a[1] and "->" not in a[1]))
                tl = facts.ty(f, l)
                if R is not None and (is_int(tl) or is_ptr(tl)) and not R.mentions(lambda a: a == fa):
                    # narrowing at the store?
                    rt = facts.ty(f, n["c"][1])
                    okw = True
                    if is_int(tl) and is_int(rt) and rt.get("w", 0) > tl.get("w", 64):
                        okw = self.prove(const((1 << tl["w"]) - 1) - R, st)
                    if okw:
                        self.pending += [atom(fa) - R, R - atom(fa)]
                        if is_int(tl) and tl.get("w", 64) <= 16:
                            self.ub[fa] = (1 << tl["w"]) - 1
                return self.flush_pending(st)
            if l["k"] in ("UnaryOperator", "ArraySubscriptExpr"):
                # store through a pointer: a write obligation
                self.deref(l, st, write=True)
            return self.flush_pending(st)
        if k == "UnaryOperator":
            op = n.get("op")
            if op in ("++", "--"):
                l = strip(n["c"][0])
                if l["k"] == "DeclRefExpr" and l.get("var") in st.sym:
                    tl = facts.ty(f, l)
                    d = self.elem_size(tl) if is_ptr(tl) else 1
                    cur = st.sym[l["var"]]
                    self.incval[n["id"]] = cur if n.get("postfix") else (cur + d if op == "++" else cur - d)
                    new = cur + d if op == "++" else cur - d
                    if op == "--" and is_unsigned(tl) and not self.prove(new, st):
                        new = None
                    self.set_var(st, l["var"], new, n)
                return st
            if op == "*":
                p = self.g.parent.get(n["id"])
                # a store `*p = x` is handled at the assignment
                if not (p is not None and p["k"] in ("BinaryOperator", "CompoundAssignOperator") and
                        p.get("op", "").endswith("=") and p["op"] not in ("==", "!=", "<=", ">=") and strip(p["c"][0]) is n):
                    self.deref(n, st)
                return self.flush_pending(st)
            return st
        if k == "ArraySubscriptExpr":
            p = self.g.parent.get(n["id"])
            if not (p is not None and p["k"] in ("BinaryOperator", "CompoundAssignOperator") and
                    p.get("op", "").endswith("=") and p["op"] not in ("==", "!=", "<=", ">=") and strip(p["c"][0]) is n):
                self.deref(n, st)
            return self.flush_pending(st)
        if k == "MemberExpr" and n.get("isfield") and n.get("member") in UNION_ARMS and \
                "PDUOption<" in (n.get("mrec") or ""):
            # discriminated union of PDUOption: the arm used must be the one real_size_ selects
            arm = UNION_ARMS[n["member"]]
            owner = strip(n["c"][0])                      # x.payload_
            obj = strip(owner["c"][0]) if owner.get("c") else None
            prefix = ""
            if obj is not None and obj["k"] != "CXXThisExpr":
                prefix = facts.expr_str(obj) + ("->" if is_ptr(facts.ty(f, obj)) else ".")
            rs = atom(("fld", prefix + "real_size_"))
            thr = None
            orec = self.db.records.get((n.get("mrec") or "").rsplit("::", 1)[0])
            for s_ in (orec or {}).get("statics", []):
                if s_["name"] == "small_buffer_size":
                    thr = s_.get("v")
            if thr is None:
                self.record(n, "union-arm", facts.expr_str(n), "undecided", "small_buffer_size not found")
            else:
                G = (rs - (thr + 1)) if arm == "big" else (const(thr) - rs)
                txt = "%s requires real_size_ %s %d" % (facts.expr_str(n), ">" if arm == "big" else "<=", thr)
                if self.prove(G, st):
                    self.record(n, "union-arm", txt, "ok", "selected by the dominating comparison of real_size_ with small_buffer_size")
                else:
                    self.record(n, "union-arm", txt, "violation",
                                "the %s arm of the payload union is used where real_size_ %s %d is not established; facts: {%s}" %
                                ("heap-pointer" if arm == "big" else "inline-buffer", ">" if arm == "big" else "<=", thr,
                                 ", ".join("%s>=0" % x for x in sorted(st.facts, key=repr)[:8])))
            return self.flush_pending(st)
        if k == "MemberExpr" and n.get("isfield") and n.get("arrow"):
            # p->field through a casted buffer pointer
            base = n["c"][0]
            bt = facts.ty(f, base)
            P = self.lin(base, st, pos)
            if P is not None and any(a in self.extent for a in P.atoms()):
                sz = self.elem_size(bt)
                what = "struct of %d bytes overlaid on the buffer" % sz
                rec = self.db.records.get(((bt or {}).get("to") or {}).get("name"))
                if rec:
                    for fl in rec["fields"]:
                        if fl["name"] == n["member"] and fl.get("off") is not None and fl.get("bits") is not None:
                            end_bits = fl["off"] + (fl.get("bitw") or fl["bits"])
                            if fl.get("bitw"):
                                # bit-field: the whole storage unit is read
                                unit = fl["bits"]
                                end_bits = (fl["off"] // unit) * unit + unit
                            sz = (end_bits + 7) // 8
                            what = "bytes [0,%d) of the overlaid struct" % sz
                self.oblige(n, "deref", P, const(sz), st, "%s (%s)" % (facts.expr_str(n), what))
            return self.flush_pending(st)
        if k in ("CXXMemberCallExpr",):
            st = self.member_call(n, st, pos)
            st = self.flush_pending(st)
            # a guard helper (`if (!C) throw` and nothing else) returns normally only when C holds
            for c_, pol_ in cond.call_guards(f, n, self.db):
                st = self.assume(st, c_, pol_)
            return st
        if k in ("CallExpr", "CXXConstructExpr", "CXXTemporaryObjectExpr", "CXXNewExpr"):
            st = self.plain_call(n, st, pos)
            st = self.flush_pending(st)
            if k == "CallExpr":
                for c_, pol_ in cond.call_guards(f, n, self.db):
                    st = self.assume(st, c_, pol_)
            return st
        if k == "CXXOperatorCallExpr":
            if n.get("op") == "[]" and len(n.get("c", [])) == 3:
                par = self.g.parent.get(n["id"])
                while par is not None and par["k"] in ("ParenExpr", "ImplicitCastExpr") and par.get("ck") != "LValueToRValue":
                    par = self.g.parent.get(par["id"])
                addr_only = par is not None and par["k"] == "UnaryOperator" and par.get("op") == "&"
                P = self.container_data(n, st)
                if P is not None and not addr_only:      # `&v[i]` only forms a pointer; its uses are checked
                    self.oblige(n, "index", P, const(1), st, facts.expr_str(n)[:60])
            st = self.plain_call(n, st, pos)
            return self.flush_pending(st)
        return st

    def deref(self, n, st, write=False):
        f = self.f
        if n["k"] == "UnaryOperator":
            pe = n["c"][0]
            P = self.lin(pe, st)
            sz = self.elem_size(facts.ty(f, pe))
        else:
            pe, ie = n["c"][0], n["c"][1]
            bt = facts.ty(f, pe)
            pe_ = pe
            while pe_["k"] in ("ImplicitCastExpr", "ParenExpr") and pe_.get("c"):
                pe_ = pe_["c"][0]       # the array-to-pointer decay hides the array type
            if (facts.ty(f, pe_) or {}).get("k") == "arr" and pe_["k"] in ("DeclRefExpr", "MemberExpr"):
                bt = facts.ty(f, pe_)
            if bt and bt.get("k") == "arr":
                # fixed-size array object (`uint16_t words[8]`): not a buffer cursor, but a non-constant index into it has to
                # stay below its element count
                nelem = bt.get("n")
                if nelem and facts.cval(ie) is None:
                    I = self.lin(ie, st)
                    text = "%s (array of %d)" % (facts.expr_str(n)[:60], nelem)
                    if I is None:
                        return
                    if self.prove(I, st) and self.prove(const(nelem - 1) - I, st):
                        self.record(n, "array-index", text, "ok", "index %s within [0, %d)" % (I, nelem))
                    elif os.environ.get("VERIF_ARRAY_INDEX_STRICT") or self.array_index_decidable(I):
                        self.record(n, "array-index", text, "violation",
                                    "cannot show 0 <= %s < %d (element count of the array) from the guards in force: {%s}" %
                                    (I, nelem, ", ".join("%s>=0" % x for x in sorted(st.facts, key=repr)[:8])))
                return
            P0, I = self.lin(pe, st), self.lin(ie, st)
            sz = self.elem_size(bt)
            P = (P0 + I.scale(sz)) if (P0 is not None and I is not None) else None
            if P0 is not None and not any(a in self.extent for a in P0.atoms()):
                return
        if P is None or not any(a in self.extent for a in P.atoms()):
            if n["id"] in self.obls and self.obls[n["id"]].verdict == "ok":
                self.record(n, "deref", facts.expr_str(n), "undecided",
                            "on a later path the pointer is no longer derived from a tracked buffer (%s)" % P)
            return
        self.oblige(n, "deref", P, const(sz), st, facts.expr_str(n), write)

    def array_index_decidable(self, I):
        """an index made only of loop counters / locals (phi values and constants): its range is what the loop says"""
        return not I.mentions(lambda a: a[0] not in ("phi",))

    def decl_stream(self, ch, st):
        """InputMemoryStream s(ptr, n) / s(vector)"""
        f = self.f
        var = ch["var"]
        init = strip(ch["c"][0]) if ch.get("c") else None
        av = ("av", var)
        self.kill_atoms(st, lambda a: a == av)
        if init is None or init["k"] not in ("CXXConstructExpr", "CXXTemporaryObjectExpr"):
            return
        args = init.get("c", [])
        if len(args) == 2:
            P, N = self.lin(args[0], st), self.lin(args[1], st)
            if P is None or N is None:
                b = ("sb", var)
                self.extent[b] = atom(("se", var))
                st.streams[var] = (atom(b), atom(("se", var)))
                st.facts = frozenset(set(st.facts) | set([atom(("se", var)) - atom(av)]))
                return
            # reading n bytes from ptr must itself be inside the enclosing buffer
            if any(a in self.extent for a in P.atoms()):
                self.oblige(init, "substream", P, N, st, "InputMemoryStream(%s, %s)" % (facts.expr_str(args[0]), facts.expr_str(args[1])))
            bases = [a for a in P.atoms() if a in self.extent]
            if len(bases) == 1:
                B = bases[0]
                off = P - atom(B)
                # stream view: base B, extent off + N ; av = N.  The view lies inside the buffer (just checked;
                # kept as a fact so that later proofs stay shallow and one defect is reported once)
                st.streams[var] = (atom(B), off + N)
                st.facts = frozenset(set(st.facts) | set([self.extent[B] - off - N]))
            else:
                b = ("sb", var)
                self.extent[b] = N
                st.streams[var] = (atom(b), N)
            st.facts = frozenset(set(st.facts) | set([atom(av) - N, N - atom(av)]))
        elif len(args) == 1:
            vb = self.vec_base(strip(args[0]))
            b = vb if vb is not None else ("sb", var)
            e = atom(("call", facts.expr_str(args[0]) + ".size()"))
            self.extent[b] = e
            st.streams[var] = (atom(b), e)
            st.facts = frozenset(set(st.facts) | set([atom(av) - e, e - atom(av)]))

    # ------------------------------------------------------------------ calls
    def read_size(self, call):
        """byte count consumed by stream.read*/skip as Lin, 'unknown', or None when not a consuming call"""
        f = self.f
        cname = call.get("cname")
        a = cfg.args(call)
        if cname in ("read", "read_be", "read_le") and not a:
            t = facts.ty(f, call)
            if t and t.get("k") in ("int", "bool", "enum") and t.get("w"):
                return const(max(1, t["w"] // 8))
            if t and t.get("k") == "rec" and t.get("size"):
                return const(t["size"])
            return "unknown"
        if cname == "read" and len(a) == 1:
            t = facts.ty(f, strip(a[0]))
            if t and t.get("k") in ("int", "bool", "enum") and t.get("w"):
                return const(max(1, t["w"] // 8))
            if t and t.get("k") == "rec":
                nm = t.get("name", "")
                if nm.startswith("Tins::IPv4Address"):
                    return const(4)
                if nm.startswith("Tins::IPv6Address"):
                    return const(16)
                if nm.startswith("Tins::HWAddress<"):
                    try:
                        return const(int(nm[len("Tins::HWAddress<"):].split(">")[0].rstrip("UL")))
                    except ValueError:
                        return "unknown"
                if t.get("size"):
                    return const(t["size"])
            if t and t.get("k") == "arr" and t.get("n") is not None:
                return const(t["n"] * self.elem_size({"to": t.get("to")}))
            return "unknown"
        if cname == "read" and len(a) == 2:
            return ("arg", 1)
        if cname == "skip" and len(a) == 1:
            return ("arg", 0)
        return None

    def member_call(self, n, st, pos):
        f = self.f
        r = cfg.receiver(n)
        cname = n.get("cname")
        if r is None:
            return self.plain_call(n, st, pos)
        rs = strip(r)
        rn = tname(facts.ty(f, r))
        if rn == STREAM and rs["k"] == "DeclRefExpr" and rs.get("var") in st.streams:
            sv = rs["var"]
            rsz = self.read_size(n)
            if rsz is not None:
                if rsz == "unknown":
                    return self.consume(st, sv, None, n["id"])
                if isinstance(rsz, tuple):
                    L = self.lin(cfg.args(n)[rsz[1]], st, pos)
                    # destination capacity for read(void*, n)
                    if cname == "read":
                        self.dest_capacity(n, cfg.args(n)[0], L, st)
                        d0 = strip(cfg.args(n)[0])
                        if L is not None and self.vec_base(d0) is not None:
                            sz = ("call", facts.expr_str(d0) + ".size()")
                            self.kill_atoms(st, lambda a: a == sz)
                            # size(vec) == n, expressed before the stream moves so that it is rewritten with it
                            st.facts = frozenset(set(st.facts) | set([atom(sz) - L, L - atom(sz)]))
                            return self.consume(st, sv, L, n["id"])
                    return self.consume(st, sv, L, n["id"])
                return self.consume(st, sv, rsz, n["id"])
            if cname == "size" and len(cfg.args(n)) == 1:
                # shrink/grow the stream view: must not exceed what is there
                L = self.lin(cfg.args(n)[0], st, pos)
                av = atom(("av", sv))
                if L is None:
                    self.record(n, "set-size", facts.expr_str(n), "undecided", "new size outside the linear language")
                    return self.consume(st, sv, None)
                if self.prove(av - L, st):
                    self.record(n, "set-size", facts.expr_str(n), "ok", "new size %s <= remaining bytes" % L)
                else:
                    self.record(n, "set-size", facts.expr_str(n), "violation",
                                "stream.size(%s) may enlarge the readable window beyond the bytes that remain" % L)
                base, ext = st.streams[sv]
                # pointer unchanged: consumed offset (ext - av) is frozen in a ghost atom
                offa = ("ld", str(n["id"]), "consumed")
                self.fresh.add(offa)
                self.kill_atoms(st, lambda a: a == ("av", sv))
                st.streams[sv] = (base, atom(offa) + L)
                # the new view ends inside the old one: consumed + L <= old view extent
                st.facts = frozenset(set(st.facts) | set([atom(("av", sv)) - L, L - atom(("av", sv)),
                                                          ext - atom(offa) - L]))
                return st
            if cname in ("pointer", "size", "can_read", "operator bool"):
                return st
            return self.consume(st, sv, None)
        # vector / string members acting as sinks with iterator pairs
        if cname in ("assign", "insert", "append") or False:
            a = cfg.args(n)
            if len(a) >= 2:
                self.iter_pair(n, a[-2], a[-1], st)
            self.container_mutation(n, rs, cname, st, pos)
            return st
        if not n.get("callee", "").endswith(" const") and self.vec_base(rs) is not None and \
                cname in ("push_back", "resize", "clear", "erase", "pop_back", "swap", "reserve", "emplace_back", "operator=", "operator+="):
            self.container_mutation(n, rs, cname, st, pos)
            return self.plain_call(n, st, pos)
        return self.plain_call(n, st, pos)

    def container_mutation(self, n, rs, cname, st, pos):
        """a byte container changes size: pointers into it are invalidated, its size atom moves to a ghost"""
        vb = self.vec_base(rs)
        if vb is None:
            return
        name = vb[1]
        sz = ("call", name + ".size()")
        args = cfg.args(n)
        delta = None
        newsize = None
        f = self.f
        if cname == "push_back" or cname == "emplace_back":
            delta = const(1)
        elif cname == "pop_back":
            delta = const(-1)
        elif cname == "clear":
            newsize = const(0)
        elif cname == "resize" and args:
            newsize = self.lin(args[0], st, pos)
        elif cname == "insert" and len(args) == 3 and is_int(facts.ty(f, strip(args[1]))):
            delta = self.lin(args[1], st, pos)
        elif cname == "append" and len(args) == 2 and is_int(facts.ty(f, strip(args[0]))) and is_int(facts.ty(f, strip(args[1]))):
            delta = self.lin(args[0], st, pos)       # string::append(n, ch)
        elif cname in ("insert", "append", "assign") and len(args) >= 2:
            A_, B_ = self.lin(args[-2], st, pos), self.lin(args[-1], st, pos)
            if A_ is not None and B_ is not None and self.base_of(A_) is not None and self.base_of(A_) == self.base_of(B_):
                d_ = B_ - A_
                if cname == "assign":
                    newsize = d_
                else:
                    delta = d_
        gh = ("ld", "sz%s" % n["id"], "oldsize:" + name)
        self.fresh.add(gh)
        st.facts = frozenset(x.subst(sz, atom(gh)) for x in st.facts
                             if not x.mentions(lambda a: a == gh or a == vb))
        for v in list(st.sym):
            if st.sym[v].mentions(lambda a: a == vb):
                st.sym[v] = atom(("ld", "inv" + str(v), "invalidated"))
            else:
                st.sym[v] = st.sym[v].subst(sz, atom(gh))
        for s_ in list(st.streams):
            b_, e_ = st.streams[s_]
            if b_.mentions(lambda a: a == vb):
                del st.streams[s_]
        if delta is not None:
            delta = delta.subst(sz, atom(gh))
            new = atom(gh) + delta
            st.facts = frozenset(set(st.facts) | set([atom(sz) - new, new - atom(sz)]))
        elif newsize is not None:
            newsize = newsize.subst(sz, atom(gh))
            st.facts = frozenset(set(st.facts) | set([atom(sz) - newsize, newsize - atom(sz)]))

    def iter_pair(self, node, first, last, st):
        A, B = self.lin(first, st), self.lin(last, st)
        ft = facts.ty(self.f, strip(first))
        if not is_ptr(ft):
            return
        if A is None or B is None:
            if A is not None and any(a in self.extent for a in A.atoms()):
                self.record(node, "range", facts.expr_str(node)[:80], "undecided", "range end outside the linear language")
            return
        if not any(a in self.extent for a in A.atoms()):
            return
        self.oblige(node, "range", A, B - A, st, "[%s, %s)" % (facts.expr_str(first), facts.expr_str(last)))

    def dest_capacity(self, node, dest, L, st):
        """read(dest, n) / memcpy(dest, src, n): n <= sizeof(*dest) when dest is a fixed-size object"""
        f = self.f
        d = facts.strip_all(dest)
        t = None
        if d["k"] == "UnaryOperator" and d.get("op") == "&":
            x = strip(d["c"][0])
            if x["k"] not in ("DeclRefExpr", "MemberExpr"):
                return       # address of an element of some array / container: not a whole object
            t = facts.ty(f, x)
        elif facts.ty(f, d) and facts.ty(f, d).get("k") == "arr":
            t = facts.ty(f, d)
        else:
            x = d
            t0 = facts.ty(f, x)
            if t0 and t0.get("k") == "arr":
                t = t0
        cap = None
        if t and t.get("k") == "arr" and t.get("n") is not None:
            cap = t["n"] * self.elem_size({"to": t.get("to")})
        elif t and t.get("k") == "rec" and t.get("size"):
            cap = t["size"]
        elif t and t.get("k") in ("int", "bool", "enum") and t.get("w"):
            cap = max(1, t["w"] // 8)
        if cap is None or L is None:
            return
        if self.prove(const(cap) - L, st):
            self.record(dest, "dest-capacity", facts.expr_str(dest), "ok", "%s <= sizeof(destination) = %d" % (L, cap))
        else:
            self.record(dest, "dest-capacity", facts.expr_str(dest), "violation",
                        "copies %s bytes into a destination of %d bytes without a bound" % (L, cap))

    def plain_call(self, n, st, pos):
        st = self._plain_call(n, st, pos)
        if n["k"] in ("CallExpr", "CXXMemberCallExpr"):
            self.apply_ref_effects(n, cfg.args(n), st, pos)
        return st

    def _plain_call(self, n, st, pos):
        f = self.f
        k = n["k"]
        if k == "CXXNewExpr":
            return st
        args = cfg.args(n) if k in ("CallExpr", "CXXMemberCallExpr", "CXXOperatorCallExpr") else n.get("c", [])
        cname = n.get("cname")
        callee = n.get("callee")
        self.check_call_preconditions(n, args, st, pos)
        self.check_state_requirements(n, args, st, pos)
        pre_idx = set(pi for (q_, pi) in list(PRECONDITIONS) + list(OUT_BUFFERS)
                      if callee and self.db.fn(callee) is not None and self.db.fn(callee)["qual"] == q_)
        # streams passed by non-const reference lose their facts
        for a in args:
            a0 = facts.strip_all(a)
            if a0["k"] == "DeclRefExpr" and a0.get("var") in st.streams and tname(facts.ty(f, a0)) in (STREAM, OSTREAM):
                pt = None
                self.consume(st, a0["var"], None, n["id"])
        if n.get("ext") and cname in EXT_SINKS:
            for pi, li, mode in EXT_SINKS[cname]:
                if pi < len(args) and li < len(args):
                    P, L = self.lin(args[pi], st, pos), self.lin(args[li], st, pos)
                    if P is not None and any(a in self.extent for a in P.atoms()):
                        self.oblige(args[pi], "sink:" + cname, P, L, st, "%s(%s, %s)" % (cname, facts.expr_str(args[pi])[:40], facts.expr_str(args[li])[:40]))
                    elif mode == "w" and L is not None:
                        self.dest_capacity(n, args[pi], L, st)
            return st
        if n.get("ext") and cname in EXT_SINKS_BITS:
            for pi, li, mode in EXT_SINKS_BITS[cname]:
                P, L = self.lin(args[pi], st, pos), self.lin(args[li], st, pos)
                if P is not None and L is not None and L.is_const() and any(a in self.extent for a in P.atoms()):
                    self.oblige(args[pi], "sink:" + cname, P, const((L.k + 7) // 8), st,
                                "%s(%s, %d bits)" % (cname, facts.expr_str(args[pi])[:40], L.k))
            return st
        if n.get("ext") and cname in EXT_PAIRS:
            for pi, li, mode in EXT_PAIRS[cname]:
                if pi < len(args) and li < len(args):
                    P, L = self.lin(args[pi], st, pos), self.lin(args[li], st, pos)
                    if P is not None and any(a in self.extent for a in P.atoms()):
                        self.oblige(args[pi], "sink:" + cname, P, L, st, "%s(%s, %s)" % (cname, facts.expr_str(args[pi])[:40], facts.expr_str(args[li])[:30]))
        if n.get("ext") and cname in EXT_FIXED:
            for pi, nb, mode in EXT_FIXED[cname]:
                if pi < len(args):
                    P = self.lin(args[pi], st, pos)
                    if P is not None and any(a in self.extent for a in P.atoms()):
                        self.oblige(args[pi], "sink:" + cname, P, const(nb), st, "%s(%s): %d bytes" % (cname, facts.expr_str(args[pi])[:40], nb))
            return st
        gq = self.db.fn(callee)["qual"] if callee and self.db.fn(callee) is not None else None
        if gq in INTERNAL_SINKS:
            for pi, li, mode in INTERNAL_SINKS[gq]:
                if pi < len(args) and li < len(args):
                    P, L = self.lin(args[pi], st, pos), self.lin(args[li], st, pos)
                    if P is not None and any(a in self.extent for a in P.atoms()):
                        self.oblige(args[pi], "sink:" + cname, P, L, st, "%s(%s, %s)" % (cname, facts.expr_str(args[pi])[:40], facts.expr_str(args[li])[:30]))
                    elif mode == "w" and L is not None:
                        self.dest_capacity(n, args[pi], L, st)
            return st
        if n.get("ext") and cname in ("copy", "equal") and len(args) == 3:
            self.iter_pair(n, args[0], args[1], st)
            return st
        # (pointer, length) pairs and iterator pairs handed to any other callee
        g = self.db.fn(callee) if callee else None
        ptypes = None
        if g is not None:
            ptypes = [facts.tyi(g, p["t"]) for p in g["params"]]
        i = 0
        crec = n.get("crec") or ""
        while i < len(args):
            a = args[i]
            ta = facts.ty(f, strip(a)) if isinstance(a, dict) else None
            if isinstance(a, dict) and is_ptr(ta) and i in pre_idx:
                i += 1
                continue
            if isinstance(a, dict) and is_ptr(ta):
                P = self.lin(a, st, pos)
                tracked = P is not None and any(x in self.extent for x in P.atoms())
                if tracked:
                    nxt = args[i + 1] if i + 1 < len(args) else None
                    prv = args[i - 1] if i >= 1 else None
                    tn_ = facts.ty(f, strip(nxt)) if isinstance(nxt, dict) else None
                    tp_ = facts.ty(f, strip(prv)) if isinstance(prv, dict) else None
                    if nxt is not None and is_ptr(tn_):
                        Q = self.lin(nxt, st, pos)
                        same = Q is not None and [x for x in Q.atoms() if x in self.extent] == [x for x in P.atoms() if x in self.extent]
                        if same:
                            self.iter_pair(n, a, nxt, st)
                            i += 2
                            continue
                    nxt_is_len = nxt is not None and is_int(tn_)
                    if nxt_is_len and ptypes is not None and i + 1 < len(ptypes) and (ptypes[i + 1] or {}).get("k") == "ref" \
                            and not ((ptypes[i + 1].get("to") or {}).get("const")) and \
                            (i, i + 1) not in (self.cursor_pairs(callee) if callee and not n.get("ext") else []):
                        nxt_is_len = False       # an output parameter, not a length
                    if nxt_is_len:
                        L = self.lin(nxt, st, pos)
                        self.oblige(a, "sink:" + (cname or "ctor"), P, L, st,
                                    "%s(%s, %s)" % (cname or crec.split("::")[-1], facts.expr_str(a)[:40], facts.expr_str(nxt)[:40]))
                        i += 2
                        continue
                    if prv is not None and is_int(tp_) and not (nxt is not None and (is_int(tn_) or is_ptr(tn_))):
                        L = self.lin(prv, st, pos)
                        self.oblige(a, "sink:option", P, L, st, "option(code, %s, %s)" % (facts.expr_str(prv)[:40], facts.expr_str(a)[:40]))
                        i += 1
                        continue
                    # fixed-length address constructors read n bytes
                    fixed = None
                    if crec.startswith("Tins::HWAddress<"):
                        try:
                            fixed = int(crec[len("Tins::HWAddress<"):].split(">")[0].rstrip("UL"))
                        except ValueError:
                            fixed = None
                    elif crec.startswith("Tins::IPv6Address"):
                        fixed = 16
                    if fixed is not None and len(args) == 1:
                        self.oblige(a, "sink:address", P, const(fixed), st, "%s(%s) reads %d bytes" % (crec.split("::")[-1], facts.expr_str(a)[:40], fixed))
                        i += 1
                        continue
                    # a lone tracked pointer escaping into a callee we do not model
                    s = self.summaries.get(callee)
                    if s is not None and i in s:
                        need = s[i]
                        self.oblige(a, "sink:" + (cname or "call"), P, const(need), st, "%s needs %d bytes at %s" % (cname, need, facts.expr_str(a)[:40]))
                    elif callee and self.callee_requirements(callee) is not None:
                        reqs, g_ = self.callee_requirements(callee)
                        mine = [need for (pi, need) in reqs if pi == i]
                        argl = {}
                        okk = True
                        for j, pp in enumerate(g_["params"]):
                            if j < len(args) and isinstance(args[j], dict):
                                tj = facts.ty(f, strip(args[j]))
                                if is_int(tj) or is_ptr(tj):
                                    argl[("p0", pp["var"])] = self.lin(args[j], st, pos)
                        if not mine:
                            self.record(a, "sink:" + (cname or "call"), "%s(%s)" % (cname, facts.expr_str(a)[:40]), "ok",
                                        "callee does not read through this pointer (summary)")
                        for need in mine:
                            N = need
                            for at in need.atoms():
                                if at in argl and argl[at] is not None and at != ("p0", g_["params"][i]["var"]):
                                    N = N.subst(at, argl[at])
                                elif at == ("p0", g_["params"][i]["var"]):
                                    N = N.subst(at, const(0))
                                else:
                                    okk = False
                            if okk:
                                self.oblige(a, "sink:" + (cname or "call"), P, N, st,
                                            "%s reads %s bytes behind %s (callee summary)" % (cname, N, facts.expr_str(a)[:40]))
                            else:
                                self.record(a, "escape", facts.expr_str(n)[:80], "undecided", "callee requirement %s not expressible at the call" % need)
                    elif ((ta.get("to") or {}).get("k") == "rec") and (ta.get("to") or {}).get("size"):
                        szs = ta["to"]["size"]
                        self.oblige(a, "sink:struct-arg", P, const(szs), st,
                                    "%s receives a %s* (%d bytes)" % (cname or crec, ta["to"].get("name", "?").split("::")[-1], szs))
                    elif g is not None or not n.get("ext"):
                        self.record(a, "escape", facts.expr_str(n)[:80], "undecided",
                                    "buffer pointer passed to %s without a length" % (cname or crec))
            i += 1
        return st
